package main

// Engine "wire" (C05): what crosses the frpc<->frps path and which peers get a session.
//
//	sniff <b> <force>                       real CheckAndEnableTLSServerConnWithTimeout over net.Pipe
//	    => custom:hs=<0|1> | tls:hs=<0|1> | plain:echo=<b> | refuse
//	srvcfg force=<0|1> ca=<0|1> cert=<0|1>   real ServerConfig.Complete + transport.NewServerTLSConfig
//	    => force=<0|1>;auth=<req|none>;cas=<0|1>;certs=<n>
//	clicfg en=<0|1|d> dis=<0|1|d> ca=<0|1> cert=<0|1> sn=<hex>   real ClientCommonConfig.Complete + NewClientTLSConfig
//	    => en=<0|1>;dis=<0|1>;skip=<0|1>;sn=<hex>;roots=<0|1>;certs=<n>
//	auth hb=<0|1> wc=<0|1> tok=<hex> ts=<n>   real auth.NewTokenAuth(...).SetLogin/SetPing/SetNewWorkConn + msg.WriteMsg
//	    => L=<digest|clear|empty|other>:<tokInFrame>;P=…;W=…
//	raw force=<0|1> b=<n>                    raw TCP peer against a real frps (tcpMux off): byte b + rest of a Login frame
//	    => resp=<type byte|none|timeout>
//	cert force=<0|1> sca=<0|1> scert=<0|1> tls=<0|1> custom=<0|1> cca=<0|1|2> sn=<0..4> ccert=<0|1|2> [proto=<tcp|kcp|ws|wss|quic>] [tok=<0|1>] [san=<d><i>] [addr=<0|1>]
//	    sn: 0 none (defaults to serverAddr) 1 frps.test 2 other.test 3 127.0.0.1 4 127.0.0.9;  san (SANs of the server's
//	    certificate, default 11): d = 0 no DNS name 1 frps.test 2 other.test 3 localhost, i = 0 no IP 1 127.0.0.1 2 127.0.0.9;
//	    addr: serverAddr 0 "127.0.0.1" 1 "localhost"
//	    real client.NewConnector over that control transport + Login (tok=0: with a wrong key) against a real frps
//	    that listens on tcp (muxed: plain / tls / websocket), kcp and quic
//	    => up=1 | up=0 (no frame came back) | up=0:loginerr (frps read the Login and answered with an error)
//	ident ca=<0|1|2> cert=<0|1> sn=<hex> peer=<ca><d><i>   real NewClientTLSConfig, then a handshake of that config over loopback TCP
//	    with a TLS server presenting the certificate <ca: issuer 1|2><d><i: SAN kinds as above>
//	    => acc=<0|1>
//	rstart / rload / rconn: reload histories of a real frpc through the recording relay, see eng_wire_reload.go
//	wire tls=<0|1> custom=<0|1> enc=<0|1> venc=<0|1> mux=<0|1> ws=<0|1> tok=<0|1> [q=<0|1>]
//	    real frps + real frpc (tcp, stcp+visitor, http proxies) through a RECORDING RELAY (q=1: protocol quic through
//	    a recording UDP relay in front of the quic port; fb=192 stands for "QUIC long-header Initial packet")
//	    => up=<0|1>;fb=<first byte of the first connection>;tok=<0|1>;sk=..;pwd=..;huser=..;user=..;pay=..;vpay=..;upay=..;dec=<0|1|na>

import (
	"bytes"
	"context"
	"crypto/ecdsa"
	"crypto/elliptic"
	"crypto/md5"
	crand "crypto/rand"
	"crypto/tls"
	"crypto/x509"
	"crypto/x509/pkix"
	"encoding/base64"
	"encoding/binary"
	"encoding/hex"
	"encoding/pem"
	"fmt"
	"io"
	"math/big"
	"math/rand"
	"net"
	"os"
	"path/filepath"
	"strconv"
	"strings"
	"sync"
	"time"

	"github.com/fatedier/golib/crypto"

	"github.com/fatedier/frp/client"
	"github.com/fatedier/frp/pkg/auth"
	v1 "github.com/fatedier/frp/pkg/config/v1"
	"github.com/fatedier/frp/pkg/msg"
	"github.com/fatedier/frp/pkg/transport"
	frplog "github.com/fatedier/frp/pkg/util/log"
	netpkg "github.com/fatedier/frp/pkg/util/net"
	"github.com/fatedier/frp/server"
)

func init() {
	register(&Engine{Name: "wire", Gen: wireGen, Exec: wireExec})
}

// ---------------------------------------------------------------- generator

func wireGen(rng *rand.Rand, n int, emit func(string)) {
	// histories of the TLS files on disk (frps: renewals while it runs; frpc: login attempts while files come and go)
	// and websocket peers with arbitrary upgrade requests — first: a failing history is shrunk from a short prefix
	hr := rand.New(rand.NewSource(rng.Int63()))
	histTail := wireGenHist(hr, n, emit)
	wireGenLogin(hr, n, emit)
	wireGenWsRaw(hr, n, emit)
	histTail()
	emit("reset")
	// (a) exhaustive sniff: 256 first bytes x force
	for f := 0; f < 2; f++ {
		for b := 0; b < 256; b++ {
			emit(fmt.Sprintf("sniff %d %d", b, f))
		}
	}
	// config records: exhaustive server side, generated client side
	for i := 0; i < 8; i++ {
		emit(fmt.Sprintf("srvcfg force=%d ca=%d cert=%d", i&1, (i>>1)&1, (i>>2)&1))
	}
	tri := []string{"0", "1", "d"}
	for i := 0; i < n/8; i++ {
		emit(fmt.Sprintf("clicfg en=%s dis=%s ca=%d cert=%d sn=%s", pick(rng, tri), pick(rng, tri), rng.Intn(2), rng.Intn(2), hx(wireGenName(rng))))
	}
	// the tls.Config of NewClientTLSConfig in a handshake with every kind of peer certificate: server names of every
	// kind (none, host names, IPv4 literals, near misses of literals) x issuer x DNS SAN kind x IP SAN kind
	for i := 0; i < n/6; i++ {
		ca := rng.Intn(3)
		if rng.Intn(3) != 0 {
			ca = 1 + rng.Intn(2)
		}
		emit(fmt.Sprintf("ident ca=%d cert=%d sn=%s pca=%d pd=%d pi=%d", ca, rng.Intn(2), hx(wireGenName(rng)),
			1+rng.Intn(2), rng.Intn(len(wireSanDNS)), rng.Intn(len(wireSanIP))))
	}
	// reload histories of one frpc (early in the sequence: a failing history is then shrunk from a short prefix)
	h := n / 200
	if h < 5 {
		h = 5
	}
	wireGenReloads(rng, h, emit)
	// the configuration as written by the operator: loader level (every type x plugin x flag) and wire level (rigs)
	wireGenConfig(rng, n, emit)
	// token setters
	for i := 0; i < n; i++ {
		tok := ""
		if rng.Intn(12) != 0 {
			tok = "Z" + wireRandStr(rng, 3+rng.Intn(28), "abcdefghijklmnopqrstuvwxyzABCDEFGHIJKLMNOPQRSTUVWXYZ0123456789!#$%&*+-_=~ ")
		}
		ts := rng.Int63n(4000000000)
		if rng.Intn(10) == 0 {
			ts = -rng.Int63n(100000)
		}
		emit(fmt.Sprintf("auth hb=%d wc=%d tok=%s ts=%d", rng.Intn(2), rng.Intn(2), hx(tok), ts))
	}
	// raw peers: every first byte x force
	for f := 0; f < 2; f++ {
		for b := 0; b < 256; b++ {
			emit(fmt.Sprintf("raw force=%d b=%d", f, b))
		}
	}
	// certificate matrix: the complete lattice (8 server x 108 client configurations) over every control transport
	// that carries it in-band — tcp, websocket, quic —, each case with the right key, a generated third of them
	// also with a wrong key (a reply of any kind shows that the Login was interpreted)
	certOp := func(proto string, s, c, tok int) string {
		return fmt.Sprintf("cert force=%d sca=%d scert=%d tls=%d custom=%d cca=%d sn=%d ccert=%d proto=%s tok=%d",
			s&1, (s>>1)&1, (s>>2)&1, c%2, (c/2)%2, (c/4)%3, (c/12)%3, (c/36)%3, proto, tok)
	}
	for _, proto := range []string{"tcp", "ws", "quic"} {
		for s := 0; s < 8; s++ {
			for c := 0; c < 108; c++ {
				emit(certOp(proto, s, c, 1))
				if rng.Intn(3) == 0 {
					emit(certOp(proto, s, c, 0))
				}
			}
		}
	}
	// identity sub-lattice: a verifying client (TLS on, CA1 trusted) with every kind of server name — none (defaulted
	// from serverAddr, an IP literal or a host name), host names, IP literals — against a server whose CA1 certificate
	// has every combination of DNS SAN kind x IP SAN kind, over tcp, websocket and quic, with and without a server CA;
	// plus generated samples of the same lattice for clients that do not verify (no CA / another CA / TLS off)
	snAddr := [][2]int{{0, 0}, {0, 1}, {1, 0}, {2, 0}, {3, 0}, {4, 0}}
	for _, proto := range []string{"tcp", "ws", "quic"} {
		for d := range wireSanDNS {
			for ip := range wireSanIP {
				for _, sa := range snAddr {
					sca := rng.Intn(2)
					ccert := rng.Intn(3)
					if sca == 1 && rng.Intn(4) != 0 {
						ccert = 1
					}
					emit(fmt.Sprintf("cert force=%d sca=%d scert=1 tls=1 custom=%d cca=1 sn=%d ccert=%d proto=%s tok=%d san=%d%d addr=%d",
						rng.Intn(2), sca, rng.Intn(2), sa[0], ccert, proto, wireBit(rng.Intn(8) != 0), d, ip, sa[1]))
				}
			}
		}
	}
	for i := 0; i < 90; i++ {
		sa := snAddr[rng.Intn(len(snAddr))]
		emit(fmt.Sprintf("cert force=0 sca=0 scert=1 tls=%d custom=%d cca=%d sn=%d ccert=%d proto=%s tok=1 san=%d%d addr=%d",
			wireBit(rng.Intn(4) != 0), rng.Intn(2), rng.Intn(3), sa[0], rng.Intn(3), pick(rng, []string{"tcp", "ws", "quic"}),
			rng.Intn(len(wireSanDNS)), rng.Intn(len(wireSanIP)), sa[1]))
	}
	// wss the way it is deployed: a TLS terminator in front of frps presents the certificate (issuer CA1 / CA2 x DNS
	// SAN kind x IP SAN kind).  The identity sub-lattice of a client with a trusted CA — every kind of server name,
	// given or defaulted — with transport.tls.enable on AND off (wss is TLS whatever that switch says), plus generated
	// samples for clients without a CA / with another CA, forcing servers, wrong keys
	for en := 0; en < 2; en++ {
		for d := range wireSanDNS {
			for ip := range wireSanIP {
				for _, sa := range snAddr {
					tca := 1
					if rng.Intn(4) == 0 {
						tca = 2
					}
					emit(fmt.Sprintf("cert force=0 sca=0 scert=%d tls=%d custom=%d cca=1 sn=%d ccert=%d proto=wss tok=%d addr=%d term=%d%d%d",
						rng.Intn(2), en, rng.Intn(2), sa[0], rng.Intn(3), wireBit(rng.Intn(8) != 0), sa[1], tca, d, ip))
				}
			}
		}
	}
	for i := 0; i < 80; i++ {
		sa := snAddr[rng.Intn(len(snAddr))]
		emit(fmt.Sprintf("cert force=%d sca=%d scert=1 tls=%d custom=%d cca=%d sn=%d ccert=%d proto=wss tok=%d addr=%d term=%d%d%d",
			wireBit(rng.Intn(5) == 0), wireBit(rng.Intn(8) == 0), rng.Intn(2), rng.Intn(2), rng.Intn(3), sa[0], rng.Intn(3),
			wireBit(rng.Intn(6) != 0), sa[1], 1+rng.Intn(2), rng.Intn(len(wireSanDNS)), rng.Intn(len(wireSanIP))))
	}
	// wss straight to frps (frps does not terminate it: never a session) and kcp (no close signalling: a refusal is a
	// time-out of the peer, so only a few cases, mostly TLS ones) — generated samples of the same lattice
	for i := 0; i < 48; i++ {
		emit(certOp("wss", rng.Intn(8), rng.Intn(108), rng.Intn(2)))
	}
	for i := 0; i < 6; i++ {
		c := rng.Intn(108)
		if i >= 2 {
			c |= 1 // tls=1
		}
		emit(certOp("kcp", rng.Intn(8), c, wireBit(rng.Intn(4) != 0)))
	}
	// recorded wire: tls x custom x enc x mux, token set; plus the empty-token corner
	for i := 0; i < 16; i++ {
		enc := (i >> 2) & 1
		emit(fmt.Sprintf("wire tls=%d custom=%d enc=%d venc=%d mux=%d ws=0 tok=1", i&1, (i>>1)&1, enc, enc, (i>>3)&1))
	}
	// visitor leg and owner leg configured differently; the empty-token corner
	emit("wire tls=0 custom=0 enc=1 venc=0 mux=0 ws=0 tok=1")
	emit("wire tls=0 custom=0 enc=0 venc=1 mux=1 ws=0 tok=1")
	emit("wire tls=1 custom=1 enc=1 venc=0 mux=1 ws=0 tok=1")
	emit("wire tls=0 custom=0 enc=1 venc=1 mux=0 ws=0 tok=0")
	emit("wire tls=1 custom=0 enc=0 venc=0 mux=1 ws=0 tok=0")
	// websocket transport: TLS (and the custom byte) run INSIDE the websocket stream
	emit("wire tls=1 custom=0 enc=0 venc=0 mux=1 ws=1 tok=1")
	emit("wire tls=1 custom=1 enc=0 venc=0 mux=0 ws=1 tok=1")
	emit("wire tls=0 custom=0 enc=0 venc=0 mux=1 ws=1 tok=1")
	emit("wire tls=0 custom=0 enc=1 venc=1 mux=0 ws=1 tok=1")
	// quic transport: TLS 1.3 is part of QUIC whatever transport.tls.enable says
	emit("wire tls=1 custom=0 enc=0 venc=0 mux=1 ws=0 tok=1 q=1")
	emit("wire tls=0 custom=0 enc=0 venc=0 mux=1 ws=0 tok=1 q=1")
	emit("wire tls=0 custom=0 enc=1 venc=0 mux=0 ws=0 tok=0 q=1")
}

// server names as a class: none, the names the certificates carry, IPv4 literals (the ones the certificates
// carry and others), near misses of literals (leading zero, field > 255, three / five fields), random host names
func wireGenName(rng *rand.Rand) string {
	switch rng.Intn(12) {
	case 0:
		return ""
	case 1, 2:
		return pick(rng, wireSanDNS[1:])
	case 3, 4, 5:
		return pick(rng, []string{"127.0.0.1", "127.0.0.9"})
	case 6:
		return fmt.Sprintf("%d.%d.%d.%d", rng.Intn(256), rng.Intn(256), rng.Intn(256), rng.Intn(256))
	case 7:
		return pick(rng, []string{"127.0.0.01", "127.0.0.256", "127.0.1", "127.0.0.1.1", "127.0.0.", "127..0.1", "0127.0.0.1", "127.0.0.1a"})
	case 8:
		return pick(rng, []string{"::1", "[127.0.0.1]", "FRPS.test", "frps.test."}) // outside the model's name domain: skipped by the driver
	default:
		return wireRandStr(rng, 1+rng.Intn(12), "abcdefghijklmnopqrstuvwxyz0123456789.-")
	}
}

func wireRandStr(rng *rand.Rand, n int, alpha string) string {
	b := make([]byte, n)
	for i := range b {
		b[i] = alpha[rng.Intn(len(alpha))]
	}
	return string(b)
}

// ---------------------------------------------------------------- PKI generated at run time

type wirePKI struct {
	dir               string
	ca1, ca2          string // CA cert files
	srvCert, srvKey   string // signed by CA1, SANs frps.test + 127.0.0.1
	cli1Cert, cli1Key string // client cert signed by CA1
	cli2Cert, cli2Key string // client cert signed by CA2
	sniffCfg          *tls.Config
	// server certificates signed by CA1 for every SAN kind "<d><i>" (files: cert, key), and the same kinds from
	// both CAs loaded for in-memory handshakes, keyed "<ca><d><i>"
	srvSan map[string][2]string
	peers  map[string]tls.Certificate
	// the two CAs themselves (index 0: CA1, 1: CA2): certificates are issued at run time by the history rigs
	caCert [2]*x509.Certificate
	caKey  [2]*ecdsa.PrivateKey
}

var (
	wireSanDNS = []string{"", "frps.test", "other.test", "localhost"}
	wireSanIP  = []net.IP{nil, net.IPv4(127, 0, 0, 1), net.IPv4(127, 0, 0, 9)}
)

var (
	wirePKIOnce sync.Once
	wirePKIVal  *wirePKI
)

func wireWritePEM(path, typ string, der []byte) {
	if err := os.WriteFile(path, pem.EncodeToMemory(&pem.Block{Type: typ, Bytes: der}), 0o600); err != nil {
		panic(err)
	}
}

func wireMakeCA(dir, name string, serial int64) (*x509.Certificate, *ecdsa.PrivateKey, string) {
	key, err := ecdsa.GenerateKey(elliptic.P256(), crand.Reader)
	if err != nil {
		panic(err)
	}
	tpl := &x509.Certificate{
		SerialNumber: big.NewInt(serial), Subject: pkix.Name{CommonName: name},
		NotBefore: time.Now().Add(-time.Hour), NotAfter: time.Now().Add(24 * time.Hour),
		IsCA: true, BasicConstraintsValid: true, KeyUsage: x509.KeyUsageCertSign | x509.KeyUsageDigitalSignature,
	}
	der, err := x509.CreateCertificate(crand.Reader, tpl, tpl, &key.PublicKey, key)
	if err != nil {
		panic(err)
	}
	cert, _ := x509.ParseCertificate(der)
	path := filepath.Join(dir, name+".crt")
	wireWritePEM(path, "CERTIFICATE", der)
	return cert, key, path
}

func wireMakeLeaf(dir, name string, serial int64, ca *x509.Certificate, caKey *ecdsa.PrivateKey, server bool) (string, string) {
	if server {
		return wireMakeServerLeaf(dir, name, serial, ca, caKey, []string{"frps.test"}, []net.IP{net.IPv4(127, 0, 0, 1)})
	}
	return wireMakeServerLeaf(dir, name, serial, ca, caKey, nil, nil)
}

// dns == nil && ips == nil and name starting with "cli": a client certificate
func wireMakeServerLeaf(dir, name string, serial int64, ca *x509.Certificate, caKey *ecdsa.PrivateKey, dns []string, ips []net.IP) (string, string) {
	server := !strings.HasPrefix(name, "cli")
	key, err := ecdsa.GenerateKey(elliptic.P256(), crand.Reader)
	if err != nil {
		panic(err)
	}
	tpl := &x509.Certificate{
		SerialNumber: big.NewInt(serial), Subject: pkix.Name{CommonName: name},
		NotBefore: time.Now().Add(-time.Hour), NotAfter: time.Now().Add(24 * time.Hour),
		KeyUsage: x509.KeyUsageDigitalSignature,
	}
	if server {
		tpl.ExtKeyUsage = []x509.ExtKeyUsage{x509.ExtKeyUsageServerAuth}
		tpl.DNSNames = dns
		tpl.IPAddresses = ips
	} else {
		tpl.ExtKeyUsage = []x509.ExtKeyUsage{x509.ExtKeyUsageClientAuth}
	}
	der, err := x509.CreateCertificate(crand.Reader, tpl, ca, &key.PublicKey, caKey)
	if err != nil {
		panic(err)
	}
	kder, err := x509.MarshalECPrivateKey(key)
	if err != nil {
		panic(err)
	}
	cp, kp := filepath.Join(dir, name+".crt"), filepath.Join(dir, name+".key")
	wireWritePEM(cp, "CERTIFICATE", der)
	wireWritePEM(kp, "EC PRIVATE KEY", kder)
	return cp, kp
}

func wireGetPKI() *wirePKI {
	wirePKIOnce.Do(func() {
		dir, err := os.MkdirTemp("", "c05pki")
		if err != nil {
			panic(err)
		}
		p := &wirePKI{dir: dir}
		ca1, k1, p1 := wireMakeCA(dir, "ca1", 1)
		ca2, k2, p2 := wireMakeCA(dir, "ca2", 2)
		p.ca1, p.ca2 = p1, p2
		p.caCert, p.caKey = [2]*x509.Certificate{ca1, ca2}, [2]*ecdsa.PrivateKey{k1, k2}
		p.srvCert, p.srvKey = wireMakeLeaf(dir, "srv", 10, ca1, k1, true)
		p.cli1Cert, p.cli1Key = wireMakeLeaf(dir, "cli1", 11, ca1, k1, false)
		p.cli2Cert, p.cli2Key = wireMakeLeaf(dir, "cli2", 12, ca2, k2, false)
		p.srvSan, p.peers = map[string][2]string{}, map[string]tls.Certificate{}
		serial := int64(100)
		for ci, ca := range []struct {
			c *x509.Certificate
			k *ecdsa.PrivateKey
		}{{ca1, k1}, {ca2, k2}} {
			for d := range wireSanDNS {
				for i := range wireSanIP {
					var dns []string
					var ips []net.IP
					if d > 0 {
						dns = []string{wireSanDNS[d]}
					}
					if i > 0 {
						ips = []net.IP{wireSanIP[i]}
					}
					serial++
					cp, kp := wireMakeServerLeaf(dir, fmt.Sprintf("srv-%d-%d%d", ci+1, d, i), serial, ca.c, ca.k, dns, ips)
					if ci == 0 {
						p.srvSan[fmt.Sprintf("%d%d", d, i)] = [2]string{cp, kp}
					}
					pair, err := tls.LoadX509KeyPair(cp, kp)
					if err != nil {
						panic(err)
					}
					p.peers[fmt.Sprintf("%d%d%d", ci+1, d, i)] = pair
				}
			}
		}
		p.sniffCfg, err = transport.NewServerTLSConfig("", "", "")
		if err != nil {
			panic(err)
		}
		wirePKIVal = p
	})
	return wirePKIVal
}

// ---------------------------------------------------------------- sniff

func wireSniff(b int, force bool) string {
	pki := wireGetPKI()
	c1, c2 := net.Pipe()
	defer c1.Close()
	defer c2.Close()
	cliCfg := &tls.Config{InsecureSkipVerify: true}
	peerDone := make(chan struct{})
	go func() {
		defer close(peerDone)
		switch b {
		case 0x17:
			if _, err := c2.Write([]byte{0x17}); err != nil {
				return
			}
			_ = tls.Client(c2, cliCfg).Handshake()
		case 0x16:
			_ = tls.Client(c2, cliCfg).Handshake() // a ClientHello record starts with 0x16
		default:
			_, _ = c2.Write([]byte{byte(b), 0xAB})
		}
	}()
	out, isTLS, custom, err := netpkg.CheckAndEnableTLSServerConnWithTimeout(c1, pki.sniffCfg, force, 5*time.Second)
	var res string
	switch {
	case err != nil:
		res = "refuse"
	case isTLS:
		_ = out.SetDeadline(time.Now().Add(5 * time.Second))
		hs := 0
		if tc, ok := out.(*tls.Conn); ok && tc.Handshake() == nil {
			hs = 1
		}
		if custom {
			res = fmt.Sprintf("custom:hs=%d", hs)
		} else {
			res = fmt.Sprintf("tls:hs=%d", hs)
		}
	default:
		buf := make([]byte, 2)
		_ = out.SetReadDeadline(time.Now().Add(5 * time.Second))
		if _, err := io.ReadFull(out, buf); err != nil || buf[1] != 0xAB {
			res = "plain:echo=lost"
		} else {
			res = fmt.Sprintf("plain:echo=%d", buf[0])
		}
	}
	c1.Close()
	c2.Close()
	<-peerDone
	return res
}

// ---------------------------------------------------------------- config records

func wireB(s string) bool { return s == "1" }

func wireKV(tok []string) map[string]string {
	m := map[string]string{}
	for _, t := range tok[1:] {
		if i := strings.IndexByte(t, '='); i > 0 {
			m[t[:i]] = t[i+1:]
		}
	}
	return m
}

func wireBit(b bool) int {
	if b {
		return 1
	}
	return 0
}

func wireSrvCfg(kv map[string]string) string {
	pki := wireGetPKI()
	cfg := &v1.ServerConfig{}
	cfg.Transport.TLS.Force = wireB(kv["force"])
	if wireB(kv["ca"]) {
		cfg.Transport.TLS.TrustedCaFile = pki.ca1
	}
	if wireB(kv["cert"]) {
		cfg.Transport.TLS.CertFile, cfg.Transport.TLS.KeyFile = pki.srvCert, pki.srvKey
	}
	cfg.Complete()
	tc, err := transport.NewServerTLSConfig(cfg.Transport.TLS.CertFile, cfg.Transport.TLS.KeyFile, cfg.Transport.TLS.TrustedCaFile)
	if err != nil {
		return "err"
	}
	a := "other"
	switch tc.ClientAuth {
	case tls.RequireAndVerifyClientCert:
		a = "req"
	case tls.NoClientCert:
		a = "none"
	}
	return fmt.Sprintf("force=%d;auth=%s;cas=%d;certs=%d", wireBit(cfg.Transport.TLS.Force), a, wireBit(tc.ClientCAs != nil), len(tc.Certificates))
}

func wireTri(s string) *bool {
	switch s {
	case "0":
		f := false
		return &f
	case "1":
		t := true
		return &t
	}
	return nil
}

func wireCliCfg(kv map[string]string) string {
	pki := wireGetPKI()
	cfg := &v1.ClientCommonConfig{}
	cfg.Transport.TLS.Enable = wireTri(kv["en"])
	cfg.Transport.TLS.DisableCustomTLSFirstByte = wireTri(kv["dis"])
	cfg.Complete()
	cert, key, ca := "", "", ""
	if wireB(kv["cert"]) {
		cert, key = pki.cli1Cert, pki.cli1Key
	}
	if wireB(kv["ca"]) {
		ca = pki.ca1
	}
	tc, err := transport.NewClientTLSConfig(cert, key, ca, unhx(kv["sn"]))
	if err != nil {
		return "err"
	}
	return fmt.Sprintf("en=%d;dis=%d;skip=%d;sn=%s;roots=%d;certs=%d",
		wireBit(*cfg.Transport.TLS.Enable), wireBit(*cfg.Transport.TLS.DisableCustomTLSFirstByte),
		wireBit(tc.InsecureSkipVerify), hx(tc.ServerName), wireBit(tc.RootCAs != nil), len(tc.Certificates))
}

// ---------------------------------------------------------------- token setters

func wireKeyForm(key, tok string, ts int64) string {
	sum := md5.Sum([]byte(tok + strconv.FormatInt(ts, 10)))
	switch {
	case key == "":
		return "empty"
	case key == hex.EncodeToString(sum[:]):
		return "digest"
	case tok != "" && strings.Contains(key, tok):
		return "clear"
	}
	return "other"
}

func wireFrameHas(m msg.Message, tok string) int {
	var buf bytes.Buffer
	if err := msg.WriteMsg(&buf, m); err != nil {
		return 9
	}
	return wireBit(tok != "" && bytes.Contains(buf.Bytes(), []byte(tok)))
}

func wireAuth(kv map[string]string) string {
	tok := unhx(kv["tok"])
	ts, _ := strconv.ParseInt(kv["ts"], 10, 64)
	var scopes []v1.AuthScope
	if wireB(kv["hb"]) {
		scopes = append(scopes, v1.AuthScopeHeartBeats)
	}
	if wireB(kv["wc"]) {
		scopes = append(scopes, v1.AuthScopeNewWorkConns)
	}
	a := auth.NewTokenAuth(scopes, tok)
	l := &msg.Login{Timestamp: ts, User: "u", RunID: "r"}
	_ = a.SetLogin(l)
	p := &msg.Ping{}
	_ = a.SetPing(p)
	w := &msg.NewWorkConn{RunID: "r"}
	_ = a.SetNewWorkConn(w)
	return fmt.Sprintf("L=%s:%d;P=%s:%d;W=%s:%d",
		wireKeyForm(l.PrivilegeKey, tok, l.Timestamp), wireFrameHas(l, tok),
		wireKeyForm(p.PrivilegeKey, tok, p.Timestamp), wireFrameHas(p, tok),
		wireKeyForm(w.PrivilegeKey, tok, w.Timestamp), wireFrameHas(w, tok))
}

// ---------------------------------------------------------------- real servers (cached)

const wireCertToken = "Zc05-cert-matrix-token"

type wireSrv struct {
	svr      *server.Service
	port     int
	kcpPort  int
	quicPort int
	stop     context.CancelFunc
}

var wireSrvs = map[string]*wireSrv{}

func wireStartServer(force, ca, cert, mux bool, token string, vhostHTTP int, scopes ...v1.AuthScope) *wireSrv {
	san := ""
	if cert {
		san = "11"
	}
	return wireStartServerSan(force, ca, san, mux, token, vhostHTTP, scopes...)
}

// san: "" = no certificate configured (frps makes a random one), else the SAN kind "<d><i>" of a CA1 certificate
func wireStartServerSan(force, ca bool, san string, mux bool, token string, vhostHTTP int, scopes ...v1.AuthScope) *wireSrv {
	pki := wireGetPKI()
	caFile, certFile, keyFile := "", "", ""
	if ca {
		caFile = pki.ca1
	}
	if san != "" {
		files, ok := pki.srvSan[san]
		if !ok {
			panic("unknown SAN kind " + san)
		}
		certFile, keyFile = files[0], files[1]
	}
	s, err := wireStartServerFiles(force, caFile, certFile, keyFile, mux, token, vhostHTTP, scopes...)
	if err != nil {
		panic(fmt.Sprint("frps did not start: ", err))
	}
	return s
}

// a real frps whose three TLS files are the given paths ("" = not configured)
func wireStartServerFiles(force bool, caFile, certFile, keyFile string, mux bool, token string, vhostHTTP int, scopes ...v1.AuthScope) (*wireSrv, error) {
	var lastErr error
	for try := 0; try < 5; try++ {
		if try > 0 && vhostHTTP != 0 {
			vhostHTTP = freeTCPPort() // the port may have been taken by another process in the meantime
		}
		scfg := &v1.ServerConfig{}
		scfg.BindAddr = "127.0.0.1"
		scfg.BindPort = freeTCPPort()
		scfg.KCPBindPort = freeUDPPort()
		scfg.QUICBindPort = freeUDPPort()
		scfg.ProxyBindAddr = "127.0.0.1"
		scfg.Auth.Token = token
		scfg.Auth.AdditionalScopes = scopes
		scfg.Transport.TLS.Force = force
		scfg.Transport.TCPMux = &mux
		scfg.VhostHTTPPort = vhostHTTP
		scfg.Transport.TLS.TrustedCaFile = caFile
		scfg.Transport.TLS.CertFile, scfg.Transport.TLS.KeyFile = certFile, keyFile
		scfg.Complete()
		svr, err := server.NewService(scfg)
		if err != nil {
			lastErr = err
			if strings.Contains(err.Error(), "tls") || os.IsNotExist(err) {
				return nil, err // the TLS files: trying again with other ports does not help
			}
			continue
		}
		ctx, cancel := context.WithCancel(context.Background())
		go svr.Run(ctx)
		return &wireSrv{svr: svr, port: scfg.BindPort, kcpPort: scfg.KCPBindPort, quicPort: scfg.QUICBindPort, stop: cancel}, nil
	}
	return nil, lastErr
}

func wireCachedServer(force, ca, cert, mux bool) *wireSrv {
	san := ""
	if cert {
		san = "11"
	}
	return wireCachedServerSan(force, ca, san, mux)
}

func wireCachedServerSan(force, ca bool, san string, mux bool) *wireSrv {
	key := fmt.Sprint(force, ca, san, mux)
	if s, ok := wireSrvs[key]; ok {
		return s
	}
	s := wireStartServerSan(force, ca, san, mux, wireCertToken, 0)
	wireSrvs[key] = s
	return s
}

// ---------------------------------------------------------------- raw peer

func wireRaw(kv map[string]string) string {
	s := wireCachedServer(wireB(kv["force"]), false, false, false)
	b := atoi(kv["b"])
	l := &msg.Login{Version: "0.61.0", Timestamp: time.Now().Unix(), PoolCount: 0}
	_ = auth.NewTokenAuth(nil, wireCertToken).SetLogin(l)
	var buf bytes.Buffer
	if err := msg.WriteMsg(&buf, l); err != nil {
		panic(err)
	}
	frame := buf.Bytes()
	frame[0] = byte(b)
	c, err := net.DialTimeout("tcp", net.JoinHostPort("127.0.0.1", strconv.Itoa(s.port)), 3*time.Second)
	if err != nil {
		return "dialerr"
	}
	defer c.Close()
	if _, err := c.Write(frame); err != nil {
		return "resp=none"
	}
	_ = c.SetReadDeadline(time.Now().Add(4 * time.Second))
	hdr := make([]byte, 9)
	if _, err := io.ReadFull(c, hdr); err != nil {
		if ne, ok := err.(net.Error); ok && ne.Timeout() {
			return "resp=timeout"
		}
		return "resp=none"
	}
	n := binary.BigEndian.Uint64(hdr[1:])
	if n > 10240 {
		return "resp=none" // not a frame (e.g. a TLS alert)
	}
	body := make([]byte, n)
	if _, err := io.ReadFull(c, body); err != nil {
		return "resp=none"
	}
	if len(body) == 0 || body[0] != '{' {
		return "resp=none"
	}
	return fmt.Sprintf("resp=%d", hdr[0])
}

// ---------------------------------------------------------------- certificate matrix

func wireCert(kv map[string]string) string {
	pki := wireGetPKI()
	san := ""
	if wireB(kv["scert"]) {
		san = "11"
		if v, ok := kv["san"]; ok {
			san = v
		}
		if _, ok := pki.srvSan[san]; !ok {
			return "badsan"
		}
	}
	return wireCertAgainst(wireCachedServerSan(wireB(kv["force"]), wireB(kv["sca"]), san, true), kv)
}

// one connection attempt of the real connector (client side as the op says) + a Login against frps `s`
func wireCertAgainst(s *wireSrv, kv map[string]string) string {
	pki := wireGetPKI()
	ccfg := &v1.ClientCommonConfig{}
	ccfg.ServerAddr = "127.0.0.1"
	if kv["addr"] == "1" {
		ccfg.ServerAddr = "localhost"
	}
	ccfg.ServerPort = s.port
	en, dis := wireB(kv["tls"]), !wireB(kv["custom"])
	ccfg.Transport.TLS.Enable = &en
	ccfg.Transport.TLS.DisableCustomTLSFirstByte = &dis
	switch kv["cca"] {
	case "1":
		ccfg.Transport.TLS.TrustedCaFile = pki.ca1
	case "2":
		ccfg.Transport.TLS.TrustedCaFile = pki.ca2
	}
	switch kv["sn"] {
	case "1":
		ccfg.Transport.TLS.ServerName = "frps.test"
	case "2":
		ccfg.Transport.TLS.ServerName = "other.test"
	case "3":
		ccfg.Transport.TLS.ServerName = "127.0.0.1"
	case "4":
		ccfg.Transport.TLS.ServerName = "127.0.0.9"
	}
	switch kv["ccert"] {
	case "1":
		ccfg.Transport.TLS.CertFile, ccfg.Transport.TLS.KeyFile = pki.cli1Cert, pki.cli1Key
	case "2":
		ccfg.Transport.TLS.CertFile, ccfg.Transport.TLS.KeyFile = pki.cli2Cert, pki.cli2Key
	}
	wait := 8 * time.Second
	switch kv["proto"] {
	case "", "tcp":
	case "ws":
		ccfg.Transport.Protocol = "websocket"
	case "wss":
		ccfg.Transport.Protocol = "wss"
		if t, ok := kv["term"]; ok {
			// a TLS terminator in front of frps (the deployment wss exists for): it presents the certificate
			// <issuer><d><i> and hands the decrypted websocket stream to the plain port of the real frps
			peer, ok := pki.peers[t]
			if !ok {
				return "badterm"
			}
			term := wireNewTerminator(peer, s.port)
			defer term.close()
			ccfg.ServerPort = term.port()
		}
	case "kcp":
		// kcp has no close signalling: a connection frps refuses and closes just stays silent
		ccfg.Transport.Protocol = "kcp"
		ccfg.ServerPort = s.kcpPort
		ccfg.Transport.DialServerTimeout = 3
		wait = 2 * time.Second
	case "quic":
		ccfg.Transport.Protocol = "quic"
		ccfg.ServerPort = s.quicPort
	default:
		return "badproto"
	}
	ccfg.Complete()
	ctx, cancel := context.WithCancel(context.Background())
	defer cancel()
	cn := client.NewConnector(ctx, ccfg)
	defer cn.Close()
	if err := cn.Open(); err != nil {
		return "up=0"
	}
	conn, err := cn.Connect()
	if err != nil {
		return "up=0"
	}
	defer conn.Close()
	l := &msg.Login{Version: "0.61.0", Timestamp: time.Now().Unix()}
	key := wireCertToken
	if kv["tok"] == "0" {
		key = "Zc05-not-the-token"
	}
	_ = auth.NewTokenAuth(nil, key).SetLogin(l)
	_ = conn.SetDeadline(time.Now().Add(wait))
	if err := msg.WriteMsg(conn, l); err != nil {
		return "up=0"
	}
	var resp msg.LoginResp
	if err := msg.ReadMsgInto(conn, &resp); err != nil {
		if ne, ok := err.(net.Error); ok && ne.Timeout() {
			if kv["proto"] == "kcp" {
				return "up=0"
			}
			return "up=timeout"
		}
		return "up=0"
	}
	if resp.Error != "" {
		return "up=0:loginerr"
	}
	return "up=1"
}

// ---------------------------------------------------------------- TLS terminator (wss)

type wireTerminator struct {
	ln    net.Listener
	mu    sync.Mutex
	conns []net.Conn
}

func wireNewTerminator(cert tls.Certificate, target int) *wireTerminator {
	ln, err := tls.Listen("tcp", "127.0.0.1:0", &tls.Config{Certificates: []tls.Certificate{cert}})
	if err != nil {
		panic(err)
	}
	t := &wireTerminator{ln: ln}
	go func() {
		for {
			c, err := ln.Accept()
			if err != nil {
				return
			}
			go func(c net.Conn) {
				tc := c.(*tls.Conn)
				_ = tc.SetDeadline(time.Now().Add(3 * time.Second))
				if tc.Handshake() != nil {
					c.Close()
					return
				}
				_ = tc.SetDeadline(time.Time{})
				u, err := net.DialTimeout("tcp", net.JoinHostPort("127.0.0.1", strconv.Itoa(target)), 2*time.Second)
				if err != nil {
					c.Close()
					return
				}
				t.mu.Lock()
				t.conns = append(t.conns, c, u)
				t.mu.Unlock()
				go func() { _, _ = io.Copy(u, c); u.Close(); c.Close() }()
				_, _ = io.Copy(c, u)
				c.Close()
				u.Close()
			}(c)
		}
	}()
	return t
}

func (t *wireTerminator) port() int { return t.ln.Addr().(*net.TCPAddr).Port }

func (t *wireTerminator) close() {
	t.ln.Close()
	t.mu.Lock()
	for _, c := range t.conns {
		c.Close()
	}
	t.mu.Unlock()
}

// ---------------------------------------------------------------- recording relay

type wireStream struct {
	c2s, s2c bytes.Buffer
}

type wireRelay struct {
	ln      net.Listener
	mu      sync.Mutex
	streams []*wireStream
	conns   []net.Conn
	// datagram side (quic): one flow per client address, datagrams appended in arrival order
	udp      *net.UDPConn
	flows    map[string]*net.UDPConn
	flowKeys []string
	flowBase []int
	// reload rig: connections accepted so far; while held, accepted connections wait before they are forwarded
	nAccepted int
	held      bool
}

func (r *wireRelay) accepted() int {
	r.mu.Lock()
	defer r.mu.Unlock()
	return r.nAccepted
}

func (r *wireRelay) hold(h bool) {
	r.mu.Lock()
	r.held = h
	r.mu.Unlock()
}

// close every relayed connection (both sides); the capture is kept
func (r *wireRelay) cut() {
	r.mu.Lock()
	cs := r.conns
	r.conns = nil
	r.mu.Unlock()
	for _, c := range cs {
		c.Close()
	}
}

// recording UDP relay: every datagram a client sends to the relay port goes to `target` from a socket
// of its own, every answer goes back; all datagrams are recorded per direction
func (r *wireRelay) serveUDP(target *net.UDPAddr) int {
	u, err := net.ListenUDP("udp", &net.UDPAddr{IP: net.IPv4(127, 0, 0, 1)})
	if err != nil {
		panic(err)
	}
	r.udp = u
	r.flows = map[string]*net.UDPConn{}
	go func() {
		buf := make([]byte, 64<<10)
		for {
			n, from, err := u.ReadFromUDP(buf)
			if err != nil {
				return
			}
			r.mu.Lock()
			up, ok := r.flows[from.String()]
			var st *wireStream
			if ok {
				st = r.streams[r.flowIdx(from.String())]
			}
			r.mu.Unlock()
			if !ok {
				up, err = net.DialUDP("udp", nil, target)
				if err != nil {
					continue
				}
				st = &wireStream{}
				r.mu.Lock()
				r.flows[from.String()] = up
				r.flowKeys = append(r.flowKeys, from.String())
				r.flowBase = append(r.flowBase, len(r.streams))
				r.streams = append(r.streams, st)
				r.mu.Unlock()
				go func(up *net.UDPConn, back *net.UDPAddr, st *wireStream) {
					b := make([]byte, 64<<10)
					for {
						m, err := up.Read(b)
						if err != nil {
							return
						}
						r.mu.Lock()
						st.s2c.Write(b[:m])
						r.mu.Unlock()
						_, _ = u.WriteToUDP(b[:m], back)
					}
				}(up, from, st)
			}
			r.mu.Lock()
			st.c2s.Write(buf[:n])
			r.mu.Unlock()
			_, _ = up.Write(buf[:n])
		}
	}()
	return u.LocalAddr().(*net.UDPAddr).Port
}

func (r *wireRelay) flowIdx(key string) int {
	for i, k := range r.flowKeys {
		if k == key {
			return r.flowBase[i]
		}
	}
	return -1
}

func wireNewRelay(target string) *wireRelay {
	ln, err := net.Listen("tcp", "127.0.0.1:0")
	if err != nil {
		panic(err)
	}
	r := &wireRelay{ln: ln}
	go func() {
		for {
			c, err := ln.Accept()
			if err != nil {
				return
			}
			for i := 0; i < 2000; i++ {
				r.mu.Lock()
				h := r.held
				r.mu.Unlock()
				if !h {
					break
				}
				time.Sleep(5 * time.Millisecond)
			}
			u, err := net.Dial("tcp", target)
			if err != nil {
				c.Close()
				continue
			}
			st := &wireStream{}
			r.mu.Lock()
			r.nAccepted++
			r.streams = append(r.streams, st)
			r.conns = append(r.conns, c, u)
			r.mu.Unlock()
			cp := func(dst, src net.Conn, buf *bytes.Buffer) {
				b := make([]byte, 32<<10)
				for {
					n, err := src.Read(b)
					if n > 0 {
						r.mu.Lock()
						buf.Write(b[:n])
						r.mu.Unlock()
						if _, werr := dst.Write(b[:n]); werr != nil {
							break
						}
					}
					if err != nil {
						break
					}
				}
				dst.Close()
				src.Close()
			}
			go cp(u, c, &st.c2s)
			go cp(c, u, &st.s2c)
		}
	}()
	return r
}

func (r *wireRelay) port() int { return r.ln.Addr().(*net.TCPAddr).Port }

func (r *wireRelay) close() {
	r.ln.Close()
	r.mu.Lock()
	for _, c := range r.conns {
		c.Close()
	}
	if r.udp != nil {
		r.udp.Close()
	}
	for _, c := range r.flows {
		c.Close()
	}
	r.mu.Unlock()
}

func (r *wireRelay) contains(marker string) bool {
	r.mu.Lock()
	defer r.mu.Unlock()
	m := []byte(marker)
	for _, s := range r.streams {
		if bytes.Contains(s.c2s.Bytes(), m) || bytes.Contains(s.s2c.Bytes(), m) {
			return true
		}
	}
	return false
}

// first byte the client sent on its first connection
func (r *wireRelay) firstByte() int {
	r.mu.Lock()
	defer r.mu.Unlock()
	if len(r.streams) == 0 || r.streams[0].c2s.Len() == 0 {
		return -1
	}
	return int(r.streams[0].c2s.Bytes()[0])
}

func (r *wireRelay) total() int {
	r.mu.Lock()
	defer r.mu.Unlock()
	n := 0
	for _, s := range r.streams {
		n += s.c2s.Len() + s.s2c.Len()
	}
	return n
}

// control connection (tls off, mux off): the client->server stream starts with the Login frame
// ('o' + 8-byte length + JSON); everything after it is the AES-CFB stream of the control cipher.
func (r *wireRelay) decryptControl(token string, want []string) string {
	r.mu.Lock()
	defer r.mu.Unlock()
	for _, s := range r.streams {
		b := s.c2s.Bytes()
		if len(b) < 9 || b[0] != msg.TypeLogin {
			continue
		}
		n := binary.BigEndian.Uint64(b[1:9])
		if uint64(len(b)) < 9+n {
			continue
		}
		rest := b[9+n:]
		plain, _ := io.ReadAll(crypto.NewReader(bytes.NewReader(rest), []byte(token)))
		ok := true
		for _, w := range want {
			if !bytes.Contains(plain, []byte(w)) {
				ok = false
			}
		}
		if ok {
			return "1"
		}
		return "0"
	}
	return "0"
}

func wireEchoBackend() (net.Listener, int) {
	ln, err := net.Listen("tcp", "127.0.0.1:0")
	if err != nil {
		panic(err)
	}
	go func() {
		for {
			c, err := ln.Accept()
			if err != nil {
				return
			}
			go func() { _, _ = io.Copy(c, c); c.Close() }()
		}
	}()
	return ln, ln.Addr().(*net.TCPAddr).Port
}

func wireRoundTrip(port int, payload string) bool {
	deadline := time.Now().Add(8 * time.Second)
	for time.Now().Before(deadline) {
		c, err := net.DialTimeout("tcp", net.JoinHostPort("127.0.0.1", strconv.Itoa(port)), time.Second)
		if err != nil {
			time.Sleep(50 * time.Millisecond)
			continue
		}
		_ = c.SetDeadline(time.Now().Add(3 * time.Second))
		_, _ = c.Write([]byte(payload))
		buf := make([]byte, len(payload))
		_, err = io.ReadFull(c, buf)
		c.Close()
		if err == nil && string(buf) == payload {
			return true
		}
		time.Sleep(100 * time.Millisecond)
	}
	return false
}

func wireUDPRoundTrip(port int, payload string) bool {
	c, err := net.DialUDP("udp", nil, &net.UDPAddr{IP: net.IPv4(127, 0, 0, 1), Port: port})
	if err != nil {
		return false
	}
	defer c.Close()
	buf := make([]byte, 2048)
	deadline := time.Now().Add(8 * time.Second)
	for time.Now().Before(deadline) {
		_, _ = c.Write([]byte(payload))
		_ = c.SetReadDeadline(time.Now().Add(100 * time.Millisecond))
		if n, err := c.Read(buf); err == nil && string(buf[:n]) == payload {
			return true
		}
	}
	return false
}

var wireSeq int

func wireMarker(kind string) string {
	// high-entropy, from crypto/rand so that no marker is ever related to another run's bytes
	b := make([]byte, 15)
	_, _ = crand.Read(b)
	wireSeq++
	return "Z" + kind + hex.EncodeToString(b)
}

func wireWire(kv map[string]string) string {
	if lv := os.Getenv("C05_LOG"); lv != "" {
		frplog.InitLogger("console", lv, 0, true)
	}
	tlsOn, custom, enc, mux, tokSet := wireB(kv["tls"]), wireB(kv["custom"]), wireB(kv["enc"]), wireB(kv["mux"]), wireB(kv["tok"])
	venc, ws, quicOn := wireB(kv["venc"]), wireB(kv["ws"]), wireB(kv["q"])
	mTok, mSk, mPwd, mHUser, mUser := wireMarker("T"), wireMarker("S"), wireMarker("P"), wireMarker("H"), wireMarker("U")
	mPay, mVPay, mUPay := wireMarker("Y"), wireMarker("V"), wireMarker("D")
	token := ""
	if tokSet {
		token = mTok
	}
	vhost := freeTCPPort()
	s := wireStartServer(false, false, false, mux, token, vhost, v1.AuthScopeHeartBeats, v1.AuthScopeNewWorkConns)
	defer func() { s.stop(); _ = s.svr.Close() }()
	relay := wireNewRelay(net.JoinHostPort("127.0.0.1", strconv.Itoa(s.port)))
	defer relay.close()
	relayUDP := 0
	if quicOn {
		relayUDP = relay.serveUDP(&net.UDPAddr{IP: net.IPv4(127, 0, 0, 1), Port: s.quicPort})
	}
	backend, bport := wireEchoBackend()
	defer backend.Close()

	ccfg := &v1.ClientCommonConfig{}
	ccfg.ServerAddr = "127.0.0.1"
	ccfg.ServerPort = relay.port()
	ccfg.Auth.Token = token
	ccfg.User = mUser
	dis := !custom
	ccfg.Transport.TLS.Enable = &tlsOn
	ccfg.Transport.TLS.DisableCustomTLSFirstByte = &dis
	ccfg.Transport.TCPMux = &mux
	if ws {
		ccfg.Transport.Protocol = "websocket"
	}
	if quicOn {
		ccfg.Transport.Protocol = "quic"
		ccfg.ServerPort = relayUDP
	}
	// digests of the token also travel in Ping and NewWorkConn
	ccfg.Auth.AdditionalScopes = []v1.AuthScope{v1.AuthScopeHeartBeats, v1.AuthScopeNewWorkConns}
	tr := true
	ccfg.LoginFailExit = &tr
	ccfg.Complete()
	prefix := mUser

	tcp := &v1.TCPProxyConfig{}
	tcp.Name, tcp.Type = "c05tcp", "tcp"
	tcp.LocalIP, tcp.LocalPort = "127.0.0.1", bport
	tcp.RemotePort = freeTCPPort()
	tcp.Transport.UseEncryption = enc
	tcp.Complete(prefix)

	stcp := &v1.STCPProxyConfig{}
	stcp.Name, stcp.Type = "c05stcp", "stcp"
	stcp.LocalIP, stcp.LocalPort = "127.0.0.1", bport
	stcp.Secretkey = mSk
	stcp.Transport.UseEncryption = enc
	stcp.Complete(prefix)

	httpP := &v1.HTTPProxyConfig{}
	httpP.Name, httpP.Type = "c05http", "http"
	httpP.LocalIP, httpP.LocalPort = "127.0.0.1", bport
	httpP.CustomDomains = []string{"c05.test"}
	httpP.HTTPUser, httpP.HTTPPassword = mHUser, mPwd
	httpP.Transport.UseEncryption = enc
	httpP.Complete(prefix)

	ubackend, err := net.ListenUDP("udp", &net.UDPAddr{IP: net.IPv4(127, 0, 0, 1)})
	if err != nil {
		panic(err)
	}
	defer ubackend.Close()
	go func() {
		buf := make([]byte, 2048)
		for {
			n, from, err := ubackend.ReadFromUDP(buf)
			if err != nil {
				return
			}
			_, _ = ubackend.WriteToUDP(buf[:n], from)
		}
	}()
	udp := &v1.UDPProxyConfig{}
	udp.Name, udp.Type = "c05udp", "udp"
	udp.LocalIP, udp.LocalPort = "127.0.0.1", ubackend.LocalAddr().(*net.UDPAddr).Port
	udp.RemotePort = freeUDPPort()
	udp.Transport.UseEncryption = enc
	udp.Complete(prefix)

	vis := &v1.STCPVisitorConfig{}
	vis.Name, vis.Type = "c05vis", "stcp"
	vis.ServerName = "c05stcp"
	vis.SecretKey = mSk
	vis.BindAddr, vis.BindPort = "127.0.0.1", freeTCPPort()
	vis.Transport.UseEncryption = venc
	vis.Complete(ccfg)

	cli, err := client.NewService(client.ServiceOptions{
		Common: ccfg, ProxyCfgs: []v1.ProxyConfigurer{tcp, stcp, httpP, udp}, VisitorCfgs: []v1.VisitorConfigurer{vis}})
	if err != nil {
		panic(err)
	}
	runErr := make(chan error, 1)
	go func() { runErr <- cli.Run(context.Background()) }()
	defer cli.Close()

	up := false
	deadline := time.Now().Add(10 * time.Second)
wait:
	for time.Now().Before(deadline) {
		select {
		case <-runErr:
			break wait
		default:
		}
		n := 0
		for _, name := range []string{tcp.Name, stcp.Name, httpP.Name, udp.Name} {
			if st, ok := cli.StatusExporter().GetProxyStatus(name); ok && st.Phase == "running" {
				n++
			}
		}
		if n == 4 {
			up = true
			break
		}
		time.Sleep(10 * time.Millisecond)
	}
	if !up {
		return "up=0"
	}
	okPay := wireRoundTrip(tcp.RemotePort, mPay)
	okV := wireRoundTrip(vis.BindPort, mVPay)
	okU := wireUDPRoundTrip(udp.RemotePort, mUPay)
	if !okPay || !okV || !okU {
		return fmt.Sprintf("up=1;traffic=%d%d%d", wireBit(okPay), wireBit(okV), wireBit(okU))
	}
	// let the last bytes reach the relay buffers
	last := -1
	for i := 0; i < 50; i++ {
		t := relay.total()
		if t == last {
			break
		}
		last = t
		time.Sleep(20 * time.Millisecond)
	}
	dec := "na"
	if !tlsOn && !mux && !ws && !quicOn {
		dec = relay.decryptControl(token, []string{mSk, mPwd, mHUser})
	}
	fb := relay.firstByte()
	if quicOn && fb >= 0 && fb&0xF0 == 0xC0 {
		fb = 0xC0 // long header, fixed bit, type Initial; the low four bits are under header protection
	}
	tokSeen := 0
	if tokSet {
		tokSeen = wireBit(relay.contains(mTok))
	}
	// a datagram travels as UDPPacket{Content: base64(datagram)} — encoded, not encrypted
	upay := wireBit(relay.contains(base64.StdEncoding.EncodeToString([]byte(mUPay))))
	return fmt.Sprintf("up=1;fb=%d;tok=%d;sk=%d;pwd=%d;huser=%d;user=%d;pay=%d;vpay=%d;upay=%d;dec=%s",
		fb, tokSeen, wireBit(relay.contains(mSk)), wireBit(relay.contains(mPwd)), wireBit(relay.contains(mHUser)),
		wireBit(relay.contains(mUser)), wireBit(relay.contains(mPay)), wireBit(relay.contains(mVPay)), upay, dec)
}

// ---------------------------------------------------------------- dispatch

var wireLogOnce sync.Once

func wireExec(tok []string) string {
	// frp's console logger writes to the stream the runner reads the trace from: error lines of a frpc / frps that is
	// being shut down (rigs) must not end up between two trace lines
	wireLogOnce.Do(func() {
		if os.Getenv("C05_LOG") == "" {
			frplog.InitLogger(os.DevNull, "error", 0, true)
		}
	})
	switch tok[0] {
	case "reset":
		wireRClose()
		wcClose()
		wireHClose()
		return "-"
	case "hstart":
		return wireHStart(wireKV(tok))
	case "hrepl":
		return wireHRepl(wireKV(tok))
	case "hwait":
		return wireHWait(wireKV(tok))
	case "hprobe":
		return wireHProbe(wireKV(tok))
	case "lstart":
		return wireLStart(wireKV(tok))
	case "lfile":
		return wireLFile(wireKV(tok))
	case "ltry":
		return wireLTry(wireKV(tok))
	case "lsvc":
		return wireLSvc(wireKV(tok))
	case "wsraw":
		return wireWsRaw(wireKV(tok))
	case "cfgload":
		return wireCfgLoad(wireKV(tok))
	case "wstart":
		return wireCStart(wireKV(tok))
	case "wobs":
		return wireCObs(wireKV(tok))
	case "sniff":
		return wireSniff(atoi(tok[1]), tok[2] == "1")
	case "srvcfg":
		return wireSrvCfg(wireKV(tok))
	case "clicfg":
		return wireCliCfg(wireKV(tok))
	case "auth":
		return wireAuth(wireKV(tok))
	case "raw":
		return wireRaw(wireKV(tok))
	case "cert":
		return wireCert(wireKV(tok))
	case "wire":
		return wireWire(wireKV(tok))
	case "ident":
		return wireIdent(wireKV(tok))
	case "rstart":
		return wireRStart(wireKV(tok))
	case "rload":
		return wireRLoad(wireKV(tok))
	case "rconn":
		return wireRConn()
	}
	return "badop"
}
