package main

import (
	"fmt"
	"io"
	"net"
	"os"
	"strings"
	"sync"
	"time"

	"github.com/samber/lo"

	"github.com/fatedier/frp/pkg/msg"
	plugin "github.com/fatedier/frp/pkg/plugin/server"
	"github.com/fatedier/frp/pkg/util/util"
)

// The `J` step of a `hist` scenario (see eng_plugin_hist.go): several occurrences of gated operations in flight
// at the same time on one real frps.  The scripted plugin server is in hold mode: it records a request on arrival
// and answers it only when the script releases it — so a user connection, a work connection, a Ping or a NewProxy
// can be INSIDE its plugin chain while others arrive, are answered (differently), and finish before or after it.
//
// What the property says of each occurrence is what it says of a lone one: the plugins registered for its operation
// are asked about IT (its own content: the remote address of that user connection, the credentials of that work
// connection, …), in order, and it goes on only if each of them consented to IT.  The requests the plugin server
// received are therefore attributed to the occurrences by their own content and judged per occurrence.

type jItem struct {
	kind byte   // 'c' user connection (+ work connection), 'p' Ping, 'n' NewProxy
	k    int    // c: the N step that registered the proxy; p, n: the slot
	arg  string // c, p: credentials; n: proxy name
	ip   int    // c: the user connection is dialled from 127.0.0.<ip>

	slotIdx int
	slot    *histSlot
	pname   string
	vconn   net.Conn
	wc      net.Conn
	laddr   string
	phase   int // c: 0 = the NewUserConn chain, 1 = the NewWorkConn chain
	held    *heldReq
	done    bool
	u, w    string
	out     string
	reqs    []int  // indexes into pst.wire of the requests attributed to this item
	nreq    [2]int // … per phase
	pinged  bool
	late    bool // a release found nothing to answer
}

type jSlotEv struct {
	slot   int
	m      msg.Message
	closed bool
}

type jItemEv struct {
	item int
	kind string // "eof" (the server closed the user connection) | "swc" (what came on the work connection)
	val  string
}

type histJ struct {
	addr   string
	ts     int64
	slots  []*histSlot
	byStep func(k int) (slot int, name string, ok bool)
	conns  []net.Conn

	items  []*jItem
	hold   *holdState
	sev    chan jSlotEv
	iev    chan jItemEv
	need   map[int]int // per slot: ReqWorkConns still to come that only replace a work connection just taken
	spare  map[int]int // per slot: ReqWorkConns seen that nobody was waiting for
	strays []int
	nReg   int
	closed map[int]bool // control connections the server has hung up
}

func (j *histJ) dial(ip int) net.Conn {
	d := net.Dialer{Timeout: time.Second}
	if ip > 1 {
		d.LocalAddr = &net.TCPAddr{IP: net.IPv4(127, 0, 0, byte(ip))}
	}
	for i := 0; i < 50; i++ {
		c, err := d.Dial("tcp", j.addr)
		if err == nil {
			j.conns = append(j.conns, c)
			return c
		}
		time.Sleep(5 * time.Millisecond)
	}
	return nil
}

func parseJItem(t string) *jItem {
	if len(t) < 2 {
		return nil
	}
	f := strings.Split(t[1:], "~")
	it := &jItem{kind: t[0], slotIdx: -1}
	switch {
	case t[0] == 'c' && len(f) == 3:
		it.k, it.arg, it.ip = -1, unhx(f[1]), atoi(f[2]) // ^: the proxy registered last among those whose session lives
		if f[0] != "^" {
			it.k = atoi(f[0])
		}
		if it.ip < 1 || it.ip > 250 {
			return nil
		}
	case (t[0] == 'p' || t[0] == 'n') && len(f) == 2:
		it.k, it.arg = atoi(f[0]), unhx(f[1])
	default:
		return nil
	}
	return it
}

// the work connection of a c item whose user connection was let through
func (j *histJ) offerWorkConn(idx int) {
	it := j.items[idx]
	it.phase = 1
	wc := j.dial(1)
	if wc == nil {
		it.w, it.done = "timeout", true
		return
	}
	it.wc = wc
	key, kts := credSplit(it.arg)
	_ = msg.WriteMsg(wc, &msg.NewWorkConn{RunID: it.slot.rid, Timestamp: kts, PrivilegeKey: key})
	go func() {
		_ = wc.SetReadDeadline(time.Now().Add(8 * time.Second))
		var sw msg.StartWorkConn
		v := ""
		if err := msg.ReadMsgInto(wc, &sw); err != nil {
			v = lo.Ternary(err == io.EOF || strings.Contains(err.Error(), "EOF") || strings.Contains(err.Error(), "reset"), "eof", "timeout")
		} else {
			v = lo.Ternary(sw.Error == "", "ok", "no")
		}
		j.iev <- jItemEv{idx, "swc", v}
	}()
}

func (j *histJ) finishC(it *jItem) {
	it.done = true
	switch {
	case it.u == "":
		it.out = "-"
	case it.u != "ok":
		it.out = it.u + "/-"
	default:
		it.out = "ok/" + it.w
	}
}

// a request arrived at the plugin server: whose is it?  (pref: the item that is being waited for)
var jDebug = os.Getenv("VERIF_J_DEBUG") != ""

func (j *histJ) arrival(hr *heldReq, pref int) {
	if jDebug {
		fmt.Fprintf(os.Stderr, "J arrival op=%s id=%d a=%q key=%q pref=%d\n", hr.w.op, hr.w.id, hr.w.a, hr.w.key, pref)
		for i, it := range j.items {
			fmt.Fprintf(os.Stderr, "   item %d kind=%c phase=%d done=%v held=%v laddr=%s u=%s w=%s nreq=%v\n", i, it.kind, it.phase, it.done, it.held != nil, it.laddr, it.u, it.w, it.nreq)
		}
	}
	if hr.w.op == plugin.OpCloseProxy || hr.w.op == plugin.OpLogin {
		// a close notification of an earlier step (asynchronous, judged by `sess`): not of this step
		close(hr.rel)
		return
	}
	// the first plugin of a chain is handed what the server built for THAT occurrence: it must carry the occurrence's
	// own identity (the remote address of the user connection, the run id of the session).  What later plugins of the
	// chain are handed is what the earlier ones made of it (they may have rewritten or dropped the address / the user
	// info): those requests are attributed causally — they follow the release of the item that is being waited for.
	opOf := func(it *jItem) string {
		switch {
		case it.kind == 'c' && it.phase == 0:
			return plugin.OpNewUserConn
		case it.kind == 'c':
			return plugin.OpNewWorkConn
		case it.kind == 'p':
			return plugin.OpPing
		}
		return plugin.OpNewProxy
	}
	waiting := func(i int) bool {
		it := j.items[i]
		return !it.done && it.held == nil && it.slot != nil && opOf(it) == hr.w.op
	}
	ident := func(it *jItem) string {
		if it.kind == 'c' && it.phase == 0 {
			return it.laddr
		}
		return it.slot.rid
	}
	first := func(it *jItem) bool { return it.nreq[it.phase] == 0 }
	cand := -1
	if pref >= 0 && waiting(pref) && (!first(j.items[pref]) || ident(j.items[pref]) == hr.w.key) {
		cand = pref
	} else {
		for i := range j.items {
			if waiting(i) && first(j.items[i]) && ident(j.items[i]) == hr.w.key {
				cand = i
				break
			}
		}
	}
	if cand < 0 {
		// nobody's: on record as a stray, answered at once
		j.strays = append(j.strays, hr.idx)
		close(hr.rel)
		return
	}
	j.items[cand].held = hr
	j.items[cand].nreq[j.items[cand].phase]++
	j.items[cand].reqs = append(j.items[cand].reqs, hr.idx)
}

func (j *histJ) slotEvent(e jSlotEv, pref int) {
	if jDebug {
		fmt.Fprintf(os.Stderr, "J slot %d closed=%v msg=%T pref=%d need=%v spare=%v\n", e.slot, e.closed, e.m, pref, j.need, j.spare)
	}
	if e.closed {
		j.closed[e.slot] = true
		for _, it := range j.items {
			if it.done || it.slotIdx != e.slot {
				continue
			}
			switch it.kind {
			case 'p', 'n':
				it.out, it.done = "closed", true
				it.slot.gone = true
			case 'c':
				if it.phase == 0 {
					it.u, it.w = "no", "-"
					j.finishC(it)
				}
			}
		}
		return
	}
	switch m := e.m.(type) {
	case *msg.ReqWorkConn:
		if j.need[e.slot] > 0 {
			j.need[e.slot]--
			return
		}
		ok := func(i int) bool {
			it := j.items[i]
			return it.kind == 'c' && !it.done && it.slotIdx == e.slot && it.phase == 0 && it.held == nil && it.vconn != nil && it.u == ""
		}
		cand := -1
		if pref >= 0 && ok(pref) {
			cand = pref
		} else {
			for i := range j.items {
				if ok(i) {
					cand = i
					break
				}
			}
		}
		if cand < 0 {
			j.spare[e.slot]++
			return
		}
		j.items[cand].u = "ok"
		j.offerWorkConn(cand)
	case *msg.Pong:
		for _, it := range j.items {
			if it.kind == 'p' && !it.done && it.slotIdx == e.slot {
				it.out, it.done, it.pinged = lo.Ternary(m.Error == "", "ok", "no"), true, true
				break
			}
		}
	case *msg.NewProxyResp:
		for _, it := range j.items {
			if it.kind == 'n' && !it.done && it.slotIdx == e.slot {
				if m.Error == "" {
					it.out = "ok:" + hx(m.ProxyName)
					j.nReg++
				} else {
					it.out = "no"
				}
				it.done = true
				break
			}
		}
	}
}

func (j *histJ) itemEvent(e jItemEv) {
	if jDebug {
		fmt.Fprintf(os.Stderr, "J item %d %s %s\n", e.item, e.kind, e.val)
	}
	it := j.items[e.item]
	if it.done {
		return
	}
	switch e.kind {
	case "eof":
		if it.phase == 0 && it.u == "" {
			it.u, it.w = "no", "-"
			j.finishC(it)
		}
	case "swc":
		if it.phase == 1 {
			it.w = e.val
			if e.val == "ok" {
				// a waiting user connection took it: Control.GetWorkConn asks for a replacement (one more ReqWorkConn)
				if j.spare[it.slotIdx] > 0 {
					j.spare[it.slotIdx]--
				} else {
					j.need[it.slotIdx]++
				}
			}
			j.finishC(it)
		}
	}
}

// wait (event driven, at most d) until item idx is held by a plugin or its outcome is known
func (j *histJ) settle(idx int, d time.Duration) {
	deadline := time.After(d)
	for {
		it := j.items[idx]
		if it.done || it.held != nil {
			return
		}
		select {
		case hr := <-j.hold.ev:
			j.arrival(hr, idx)
		case e := <-j.sev:
			j.slotEvent(e, idx)
		case e := <-j.iev:
			j.itemEvent(e)
		case <-deadline:
			return
		}
	}
}

// the ReqWorkConns that only replace work connections taken in this step: wait for them so that none is left over
func (j *histJ) drainNeeds(d time.Duration) {
	deadline := time.After(d)
	for {
		n := 0
		for _, v := range j.need {
			n += v
		}
		if n == 0 {
			return
		}
		select {
		case hr := <-j.hold.ev:
			j.arrival(hr, -1)
		case e := <-j.sev:
			j.slotEvent(e, -1)
		case e := <-j.iev:
			j.itemEvent(e)
		case <-deadline:
			return
		}
	}
}

func (j *histJ) launch(idx int) {
	it := j.items[idx]
	switch it.kind {
	case 'c':
		slot, name, ok := j.byStep(it.k)
		if !ok || slot < 0 || slot >= len(j.slots) {
			j.finishC(it)
			return
		}
		s := j.slots[slot]
		if !s.usable || s.replaced {
			j.finishC(it)
			return
		}
		it.slotIdx, it.slot, it.pname = slot, s, name
		vconn := j.dial(it.ip)
		if vconn == nil {
			it.out, it.done = "timeout", true
			return
		}
		_ = vconn.SetDeadline(time.Now().Add(3 * time.Second))
		_ = msg.WriteMsg(vconn, &msg.NewVisitorConn{RunID: s.rid, ProxyName: name, Timestamp: j.ts, SignKey: util.GetAuthKey("k", j.ts)})
		// the address the NewUserConn plugins must be told about this connection is known before the server can
		// have asked them: the visitor is admitted only once the response has been read
		it.laddr = vconn.LocalAddr().String()
		var vr msg.NewVisitorConnResp
		if err := msg.ReadMsgInto(vconn, &vr); err != nil || vr.Error != "" {
			vconn.Close()
			it.laddr = ""
			j.finishC(it) // not admitted: no user connection
			return
		}
		_ = vconn.SetDeadline(time.Time{})
		it.vconn = vconn
		go func() {
			buf := make([]byte, 1)
			_, _ = vconn.Read(buf)
			j.iev <- jItemEv{idx, "eof", ""}
		}()
	case 'p', 'n':
		if it.k < 0 || it.k >= len(j.slots) || !j.slots[it.k].usable {
			it.out, it.done = "dead", true
			return
		}
		for i := 0; i < idx; i++ {
			if o := j.items[i]; (o.kind == 'p' || o.kind == 'n') && o.k == it.k {
				it.out, it.done = "dup", true // one message per session and step: its dispatcher takes them in turn
				return
			}
		}
		it.slotIdx, it.slot = it.k, j.slots[it.k]
		if j.closed[it.k] {
			it.out, it.done = "closed", true
			it.slot.gone = true
			return
		}
		if it.kind == 'p' {
			key, kts := credSplit(it.arg)
			_ = msg.WriteMsg(it.slot.crw, &msg.Ping{PrivilegeKey: key, Timestamp: kts})
		} else {
			_ = msg.WriteMsg(it.slot.crw, &msg.NewProxy{ProxyName: it.arg, ProxyType: "stcp", Sk: "k"})
		}
	}
}

func (j *histJ) release(idx int) {
	it := j.items[idx]
	if it.done {
		return
	}
	if it.held == nil {
		// nothing of it has reached a plugin yet although it should have long ago: give it one more second (a busy
		// machine), after that it is taken for a request that is not going to come
		if !it.late {
			j.settle(idx, time.Second)
			it.late = it.held == nil && !it.done
		} else {
			j.settle(idx, 50*time.Millisecond)
		}
		if it.held == nil {
			return
		}
	}
	hr := it.held
	it.held = nil
	close(hr.rel)
	j.settle(idx, 2*time.Second)
}

// returns the items' results, the wire of the step, per item the slot whose Ping was answered (or -1), the number of
// proxies registered, and "" or why the scenario is void
func (j *histJ) run(itemsTok, actsTok string) ([]string, string, []int, int, string) {
	for _, t := range strings.Split(itemsTok, "/") {
		it := parseJItem(t)
		if it == nil {
			return nil, "", nil, 0, "bad-op"
		}
		j.items = append(j.items, it)
	}
	if len(j.items) > 8 {
		return nil, "", nil, 0, "bad-op"
	}
	type act struct {
		rel          int
		id           int
		kind, x1, x2 string
	}
	acts := []act{}
	if actsTok != "" && actsTok != "-" {
		for _, t := range strings.Split(actsTok, "/") {
			switch {
			case strings.HasPrefix(t, "r"):
				acts = append(acts, act{rel: atoi(t[1:])})
			case strings.HasPrefix(t, "f"):
				f := strings.Split(t[1:], "~")
				if len(f) != 4 {
					return nil, "", nil, 0, "bad-op"
				}
				acts = append(acts, act{rel: -1, id: atoi(f[0]), kind: f[1], x1: unhx(f[2]), x2: unhx(f[3])})
			default:
				return nil, "", nil, 0, "bad-op"
			}
		}
	}
	j.hold = &holdState{ev: make(chan *heldReq, 64), off: make(chan struct{})}
	j.sev = make(chan jSlotEv, 512)
	j.iev = make(chan jItemEv, 64)
	j.need, j.spare, j.closed = map[int]int{}, map[int]int{}, map[int]bool{}
	pst.mu.Lock()
	pst.hold = j.hold
	pst.mu.Unlock()
	// the messages of every live control connection go through the step's event loop
	stop := make(chan struct{})
	var wg sync.WaitGroup
	for i, s := range j.slots {
		if !s.usable || s.in == nil {
			continue
		}
		wg.Add(1)
		go func(i int, in chan msg.Message) {
			defer wg.Done()
			for {
				select {
				case m, ok := <-in:
					if !ok {
						j.sev <- jSlotEv{slot: i, closed: true}
						return
					}
					j.sev <- jSlotEv{slot: i, m: m}
				case <-stop:
					return
				}
			}
		}(i, s.in)
	}
	defer func() {
		pst.mu.Lock()
		pst.hold = nil
		pst.mu.Unlock()
		close(j.hold.off)
		close(stop)
		wg.Wait()
	}()

	// launch: one after the other, each until its first plugin holds it (or, nobody being registered, it is through).
	// A request that has not arrived after 300 ms is not waited for any longer (should it still come it is booked when
	// it does).
	for i := range j.items {
		j.launch(i)
		j.settle(i, 300*time.Millisecond)
	}
	for _, a := range acts {
		if a.rel < 0 {
			histFlip(a.id, a.kind, a.x1, a.x2)
			continue
		}
		if a.rel < len(j.items) {
			j.release(a.rel)
		}
	}
	// whatever is still held is released, item by item
	for i, it := range j.items {
		for n := 0; n < 20 && !it.done; n++ {
			if it.held == nil {
				j.settle(i, 500*time.Millisecond)
				if it.held == nil {
					break
				}
			}
			j.release(i)
		}
	}
	j.drainNeeds(2 * time.Second)
	for _, it := range j.items {
		if !it.done {
			it.out, it.done = "timeout", true
		}
		if it.vconn != nil {
			it.vconn.Close()
		}
		if it.wc != nil {
			it.wc.Close()
		}
	}
	pst.mu.Lock()
	wire := append([]plugWire{}, pst.wire...)
	pst.mu.Unlock()
	render := func(idxs []int) string {
		parts := []string{}
		for _, i := range idxs {
			if i >= len(wire) {
				continue
			}
			e := wire[i]
			b := e.b
			if e.op == plugin.OpLogin || e.op == plugin.OpNewUserConn {
				b = ""
			}
			parts = append(parts, fmt.Sprintf("%s:%d:%s:%s%s%s", e.op, e.id, hx(e.a), hx(b), lo.Ternary(e.r0, ":R0", ""), lo.Ternary(e.ridBad, ":RID", "")))
		}
		if len(parts) == 0 {
			return "-"
		}
		return strings.Join(parts, "+")
	}
	outs, ws, pinged := []string{}, []string{}, []int{}
	for _, it := range j.items {
		outs = append(outs, it.out)
		ws = append(ws, render(it.reqs))
		pinged = append(pinged, lo.Ternary(it.pinged, it.slotIdx, -1))
	}
	w := strings.Join(ws, "&")
	if len(j.strays) > 0 {
		w += "&?" + render(j.strays)
	}
	return outs, w, pinged, j.nReg, ""
}
