// Engine "wait" (C14), live traffic at the moment a session dies: the scripted client of the server-side
// watchdog scenarios (runWd in eng_wait.go) as a full peer -- it answers ReqWorkConn with work connections
// (separate TCP connections, or yamux streams when tcpMux is on), echoes on them, and keeps every socket open
// when it falls silent.
package main

import (
	"fmt"
	"io"
	"net"
	"sync"
	"time"

	fmux "github.com/hashicorp/yamux"

	"github.com/fatedier/frp/pkg/msg"
	netpkg "github.com/fatedier/frp/pkg/util/net"
	"github.com/fatedier/frp/pkg/util/util"
	"github.com/fatedier/frp/pkg/util/version"
)

// one scripted client session
type wdSess struct {
	port  int
	tcp   net.Conn      // the TCP connection to frps
	mux   *fmux.Session // tcpMux on: the yamux session on it
	conn  net.Conn      // the control connection (tcp itself, or the first stream)
	rw    io.ReadWriter // … encrypted
	runID string

	mu     sync.Mutex
	works  []net.Conn // every work connection this peer opened (kept open until the scenario is over)
	silent bool       // the peer no longer answers anything
}

// wdLoginX speaks the client side of the login by hand; host goes into Login.Hostname (the owner shown by
// Service.VerifSessDump)
func wdLoginX(port int, mux bool, host string) (*wdSess, string) {
	tcp, err := net.DialTimeout("tcp", fmt.Sprintf("127.0.0.1:%d", port), 3*time.Second)
	if err != nil {
		return nil, "infra-dial"
	}
	s := &wdSess{port: port, tcp: tcp, conn: tcp}
	if mux {
		c := fmux.DefaultConfig()
		c.LogOutput = io.Discard
		c.MaxStreamWindowSize = 6 * 1024 * 1024
		c.EnableKeepAlive = false // the server's keep-alive (30 s) is answered by the session; ours is not needed
		sess, err := fmux.Client(tcp, c)
		if err != nil {
			tcp.Close()
			return nil, "infra-mux"
		}
		st, err := sess.OpenStream()
		if err != nil {
			sess.Close()
			tcp.Close()
			return nil, "infra-mux-open"
		}
		s.mux, s.conn = sess, st
	}
	conn := s.conn
	now := time.Now().Unix()
	if err := msg.WriteMsg(conn, &msg.Login{
		Version: version.Full(), Hostname: host, Timestamp: now, PrivilegeKey: util.GetAuthKey(waitToken, now),
	}); err != nil {
		s.closeAll()
		return nil, "infra-login-write"
	}
	_ = conn.SetReadDeadline(time.Now().Add(5 * time.Second))
	m, err := msg.ReadMsg(conn)
	if err != nil {
		s.closeAll()
		return nil, "infra-login-read"
	}
	lr, ok := m.(*msg.LoginResp)
	if !ok || lr.Error != "" {
		s.closeAll()
		return nil, "login-refused"
	}
	s.runID = lr.RunID
	_ = conn.SetReadDeadline(time.Time{})
	rw, err := netpkg.NewCryptoReadWriter(conn, []byte(waitToken))
	if err != nil {
		s.closeAll()
		return nil, "infra-crypto"
	}
	s.rw = rw
	return s, ""
}

// cut: the connection to frps ends (without tcpMux the control connection only: the work connections are
// connections of their own and stay; with tcpMux everything travels on the one TCP connection)
func (s *wdSess) cut() {
	s.conn.Close()
	if s.mux != nil {
		s.mux.Close()
		s.tcp.Close()
	}
}

func (s *wdSess) closeAll() {
	s.mu.Lock()
	ws := s.works
	s.works = nil
	s.silent = true
	s.mu.Unlock()
	for _, w := range ws {
		w.Close()
	}
	s.conn.Close()
	if s.mux != nil {
		s.mux.Close()
	}
	s.tcp.Close()
}

func (s *wdSess) fallSilent() {
	s.mu.Lock()
	s.silent = true
	s.mu.Unlock()
}

// answerReqWorkConn: what frpc does on ReqWorkConn -- open a work connection, announce it, wait for StartWorkConn,
// then carry the user's bytes (here: echo them).  A silent peer does nothing, and never closes anything.
func (s *wdSess) answerReqWorkConn() {
	s.mu.Lock()
	if s.silent {
		s.mu.Unlock()
		return
	}
	s.mu.Unlock()
	var wc net.Conn
	var err error
	if s.mux != nil {
		wc, err = s.mux.OpenStream()
	} else {
		wc, err = net.DialTimeout("tcp", fmt.Sprintf("127.0.0.1:%d", s.port), 2*time.Second)
	}
	if err != nil {
		return
	}
	s.mu.Lock()
	if s.silent {
		// fell silent meanwhile: the socket stays open like all the others
		s.works = append(s.works, wc)
		s.mu.Unlock()
		return
	}
	s.works = append(s.works, wc)
	s.mu.Unlock()
	now := time.Now().Unix()
	if msg.WriteMsg(wc, &msg.NewWorkConn{RunID: s.runID, Timestamp: now, PrivilegeKey: util.GetAuthKey(waitToken, now)}) != nil {
		return
	}
	var st msg.StartWorkConn
	if msg.ReadMsgInto(wc, &st) != nil {
		return
	}
	buf := make([]byte, 512)
	for {
		n, err := wc.Read(buf)
		if err != nil {
			return
		}
		s.mu.Lock()
		quiet := s.silent
		s.mu.Unlock()
		if quiet {
			continue // a silent peer swallows what arrives
		}
		if _, err := wc.Write(buf[:n]); err != nil {
			return
		}
	}
}

// wdUserConn: a user of the tunnel -- connects to the remote port, sends a few bytes and waits for the echo
// (= the connection is bridged to a work connection), then stays connected
func wdUserConn(port int, tag string) (net.Conn, bool) {
	c, err := net.DialTimeout("tcp", fmt.Sprintf("127.0.0.1:%d", port), 2*time.Second)
	if err != nil {
		return nil, false
	}
	payload := []byte("hello-" + tag)
	if _, err := c.Write(payload); err != nil {
		return c, false
	}
	_ = c.SetReadDeadline(time.Now().Add(2 * time.Second))
	got := make([]byte, len(payload))
	_, err = io.ReadFull(c, got)
	_ = c.SetReadDeadline(time.Time{})
	return c, err == nil && string(got) == string(payload)
}

// wdStillOpen: the user connection has not been closed by frps (nothing arrives on it any more: a read times out)
func wdStillOpen(c net.Conn) bool {
	_ = c.SetReadDeadline(time.Now().Add(30 * time.Millisecond))
	var b [1]byte
	_, err := c.Read(b[:])
	_ = c.SetReadDeadline(time.Time{})
	if err == nil {
		return true
	}
	ne, ok := err.(net.Error)
	return ok && ne.Timeout()
}
