package main

import (
	"bytes"
	"fmt"
	"math/rand"
	"net"
	"strings"
	"sync"
	"time"

	"github.com/fatedier/frp/pkg/msg"
	"github.com/fatedier/frp/pkg/proto/udp"
)

// One more op of engine "codec": the lossless clause for the ADDRESS of a udp message on the two paths of the
// repository that build one (Gen/UdpAddr.lean ctorCalls), each driven for real:
//
//	fwd cli <seed> <k>   the client side udp.Forwarder in front of a local udp echo service.  k inbound packets —
//	     udp.NewUDPPacket(payload, nil, addr) with addr from the class of cbAddr, written and read by the real codec as
//	     the work connection does — go into its readCh; the Forwarder relays each payload to the service and packs the
//	     answer under the remote address the inbound packet carried.  Every reply taken from sendCh goes through the
//	     real codec again (what frps decodes) and udp.GetContent.
//	fwd srv <seed> <k>   the server side udp.ForwardUserConn on a real socket (wildcard dual stack, udp4 loopback or
//	     udp6).  k datagrams are sent from sockets bound to addresses of this host — 127.a.b.c (the whole of
//	     127.0.0.0/8 is local), ::1, every IPv6 address of every interface; a link-local one is bound WITH its zone, so
//	     ReadFromUDP hands ForwardUserConn an address with a zone — ; every packet taken from sendCh goes through the
//	     real codec and udp.GetContent.
//	     => per item two words:  V<p payload hex>/n/<address: the user's>  I<p content hex>/<LocalAddr>/<RemoteAddr> | Ilost
//	        (an address is `n` or <IP bytes hex>.<Port>.<Zone hex>; lost = no packet with that payload came within 2 s —
//	        udp may drop, nothing is claimed for such an item), or `nosock` when no socket could be had at all.
//
// The harness compares nothing: the driver decides (content against payload, the address that came out against the one
// that went in, field by field).

type cfItem struct {
	payload []byte
	addr    *net.UDPAddr // cli: the remote address of the inbound packet; srv: the sender's own address
	vdump   string
	imm     string
}

func cfPayload(rng *rand.Rand, seed int64, i int) []byte {
	p := []byte(fmt.Sprintf("<%d:%d>", seed%100000, i)) // distinct per item: replies are matched by payload
	extra := make([]byte, pick(rng, []int{0, 0, 1, 7, 64, 300, 1200}))
	rng.Read(extra)
	return append(p, extra...)
}

// the packet as the peer decodes it: the real encoder, the real decoder
func cfWire(m msg.Message) (*msg.UDPPacket, string) {
	var buf bytes.Buffer
	if err := msg.WriteMsg(&buf, m); err != nil {
		return nil, "werr"
	}
	got, err := msg.ReadMsg(&buf)
	if err != nil {
		return nil, "err:" + codec_errClass(err)
	}
	pkt, ok := got.(*msg.UDPPacket)
	if !ok {
		return nil, "err:type"
	}
	return pkt, ""
}

func cfObserve(items []*cfItem, m msg.Message) {
	pkt, e := cfWire(m)
	if pkt == nil {
		// cannot be attributed to an item: every open item shows it
		for _, it := range items {
			if it.imm == "lost" {
				it.imm = e
			}
		}
		return
	}
	c, err := udp.GetContent(pkt)
	if err != nil {
		c = []byte("?b64")
	}
	for _, it := range items {
		if it.imm == "lost" && bytes.Equal(c, it.payload) {
			it.imm = cbPktDump(c, pkt.LocalAddr, pkt.RemoteAddr)
			return
		}
	}
	// a packet whose content is none of the payloads that went in
	for _, it := range items {
		if it.imm == "lost" {
			it.imm = cbPktDump(c, pkt.LocalAddr, pkt.RemoteAddr)
			return
		}
	}
}

func cfOpen(items []*cfItem) int {
	n := 0
	for _, it := range items {
		if it.imm == "lost" {
			n++
		}
	}
	return n
}

func cfResult(items []*cfItem) string {
	var out []string
	for _, it := range items {
		out = append(out, "V"+it.vdump, "I"+it.imm)
	}
	return strings.Join(out, " ")
}

func codecFwdCli(seed int64, k int) string {
	rng := rand.New(rand.NewSource(seed))
	echo, err := net.ListenUDP("udp4", &net.UDPAddr{IP: net.IP{127, 0, 0, 1}})
	if err != nil {
		return "nosock"
	}
	go func() {
		buf := make([]byte, 4096)
		for {
			n, from, err := echo.ReadFromUDP(buf)
			if err != nil {
				return
			}
			_, _ = echo.WriteToUDP(buf[:n], from)
		}
	}()
	readCh := make(chan *msg.UDPPacket, 4*k+4)
	sendCh := make(chan msg.Message, 4*k+4)
	udp.Forwarder(echo.LocalAddr().(*net.UDPAddr), readCh, sendCh, 1500)

	items := make([]*cfItem, k)
	var inbound []*msg.UDPPacket
	for i := range items {
		it := &cfItem{payload: cfPayload(rng, seed, i), addr: cbAddr(rng), imm: "lost"}
		it.vdump = cbPktDump(it.payload, nil, it.addr)
		items[i] = it
		in, e := cfWire(udp.NewUDPPacket(it.payload, nil, it.addr)) // what frps sent, as frpc decodes it
		if in == nil {
			it.imm = e
			continue
		}
		inbound = append(inbound, in)
		readCh <- in
	}
	deadline := time.After(2 * time.Second)
wait:
	for cfOpen(items) > 0 {
		select {
		case m := <-sendCh:
			cfObserve(items, m)
		case <-deadline:
			break wait
		}
	}
	// tear down: with the service gone one more datagram per peer makes the Forwarder's connected sockets fail
	// (ICMP port unreachable), which ends their reader goroutines before the 30 s idle timeout
	echo.Close()
	for _, in := range inbound {
		select {
		case readCh <- in:
		default:
		}
	}
	close(readCh)
	return cfResult(items)
}

type cfSrc struct {
	ip   net.IP
	zone string
}

var (
	cfSrcOnce sync.Once
	cfSrcs6   []cfSrc
)

// the IPv6 addresses this host owns (::1 and every interface address; link-local ones with their zone)
func cfSources6() []cfSrc {
	cfSrcOnce.Do(func() {
		ifs, _ := net.Interfaces()
		for _, ifc := range ifs {
			addrs, _ := ifc.Addrs()
			for _, a := range addrs {
				ipn, ok := a.(*net.IPNet)
				if !ok || ipn.IP.To4() != nil || len(ipn.IP) != 16 {
					continue
				}
				s := cfSrc{ip: ipn.IP}
				if ipn.IP.IsLinkLocalUnicast() || ipn.IP.IsLinkLocalMulticast() {
					s.zone = ifc.Name
				}
				// usable? (an address may be tentative / the sandbox may forbid it)
				c, err := net.ListenUDP("udp6", &net.UDPAddr{IP: s.ip, Zone: s.zone})
				if err != nil {
					continue
				}
				c.Close()
				cfSrcs6 = append(cfSrcs6, s)
			}
		}
	})
	return cfSrcs6
}

func codecFwdSrv(seed int64, k int) string {
	rng := rand.New(rand.NewSource(seed))
	srcs6 := cfSources6()
	var lst *net.UDPConn
	var err error
	mode := rng.Intn(3)
	if len(srcs6) == 0 {
		mode = 1
	}
	switch mode {
	case 0: // wildcard, dual stack where the host has one
		lst, err = net.ListenUDP("udp", &net.UDPAddr{})
	case 1:
		lst, err = net.ListenUDP("udp4", &net.UDPAddr{IP: net.IP{127, 0, 0, 1}})
	default:
		lst, err = net.ListenUDP("udp6", &net.UDPAddr{})
	}
	if err != nil {
		lst, err = net.ListenUDP("udp4", &net.UDPAddr{IP: net.IP{127, 0, 0, 1}})
		mode = 1
	}
	if err != nil {
		return "nosock"
	}
	port := lst.LocalAddr().(*net.UDPAddr).Port
	v6only := mode == 2
	if mode == 0 && lst.LocalAddr().(*net.UDPAddr).IP.To4() != nil {
		mode = 1 // no IPv6 on this host: the wildcard is an IPv4 one
	}
	readCh := make(chan *msg.UDPPacket)
	sendCh := make(chan *msg.UDPPacket, 4*k+4)
	done := make(chan struct{})
	go func() {
		defer close(done)
		udp.ForwardUserConn(lst, readCh, sendCh, 1500)
	}()

	items := make([]*cfItem, k)
	var socks []*net.UDPConn
	for i := range items {
		it := &cfItem{payload: cfPayload(rng, seed, i), imm: "lost"}
		items[i] = it
		var c *net.UDPConn
		var dst *net.UDPAddr
		use6 := mode != 1 && (v6only || rng.Intn(3) != 0)
		if use6 {
			s := pick(rng, srcs6)
			c, err = net.ListenUDP("udp6", &net.UDPAddr{IP: s.ip, Zone: s.zone})
			dst = &net.UDPAddr{IP: s.ip, Port: port, Zone: s.zone}
		} else {
			ip := net.IP{127, byte(rng.Intn(256)), byte(rng.Intn(256)), byte(1 + rng.Intn(254))}
			c, err = net.ListenUDP("udp4", &net.UDPAddr{IP: ip})
			dst = &net.UDPAddr{IP: net.IP{127, 0, 0, 1}, Port: port}
		}
		if err != nil {
			it.imm = "nobind"
			it.vdump = cbPktDump(it.payload, nil, nil)
			continue
		}
		socks = append(socks, c)
		it.addr = c.LocalAddr().(*net.UDPAddr)
		it.vdump = cbPktDump(it.payload, nil, it.addr)
		if _, err := c.WriteToUDP(it.payload, dst); err != nil {
			it.imm = "nosend"
		}
	}
	deadline := time.After(2 * time.Second)
wait:
	for cfOpen(items) > 0 {
		select {
		case m := <-sendCh:
			cfObserve(items, m)
		case <-deadline:
			break wait
		}
	}
	lst.Close()
	close(readCh)
	for _, c := range socks {
		c.Close()
	}
	select {
	case <-done:
	case <-time.After(2 * time.Second):
		return "stuck"
	}
	return cfResult(items)
}

func codecFwd(tok []string) string {
	if len(tok) != 4 {
		return "badop"
	}
	var seed int64
	fmt.Sscan(tok[2], &seed)
	k := atoi(tok[3])
	if k < 1 || k > 16 {
		return "badop"
	}
	switch tok[1] {
	case "cli":
		return codecFwdCli(seed, k)
	case "srv":
		return codecFwdSrv(seed, k)
	}
	return "badop"
}

func cdGenFwd(rng *rand.Rand) string {
	return fmt.Sprintf("fwd %s %d %d", pick(rng, []string{"cli", "srv"}), rng.Int63n(1<<40), 1+rng.Intn(4))
}
