package main

import (
	"context"
	"fmt"
	"math/rand"
	"net"
	"sort"
	"strconv"
	"strings"
	"time"

	"github.com/fatedier/frp/pkg/auth"
	v1 "github.com/fatedier/frp/pkg/config/v1"
	"github.com/fatedier/frp/pkg/msg"
	"github.com/fatedier/frp/pkg/nathole"
	plugin "github.com/fatedier/frp/pkg/plugin/server"
	"github.com/fatedier/frp/pkg/util/tcpmux"
	"github.com/fatedier/frp/pkg/util/vhost"
	"github.com/fatedier/frp/server"
	"github.com/fatedier/frp/server/controller"
	"github.com/fatedier/frp/server/group"
	"github.com/fatedier/frp/server/ports"
	"github.com/fatedier/frp/server/proxy"
	"github.com/fatedier/frp/server/visitor"
)

// Engine "release" (property C10): every non-port resource table of the server through real
// Control.RegisterProxy / CloseProxy / session end (Control.Close → worker) for http, https, tcpmux,
// stcp, sudp and xtcp proxies.
//
//	reset
//	reg <sid> <name> http   <domains> <locations> <routeUser>    => ok | err:<class>
//	reg <sid> <name> https  <domains>
//	reg <sid> <name> tcpmux <domains> <routeUser>
//	reg <sid> <name> stcp | sudp | xtcp
//	      <domains>, <locations>: comma separated hx tokens ("-" = none)
//	close <sid> <name>                                           => -
//	endsess <sid>                                                => -   (control connection dropped; waits for the teardown)
//	view                                                         => canonical dump of all tables
type releaseState struct {
	cfg     *v1.ServerConfig
	rc      *controller.ResourceController
	routers *vhost.Routers
	pm      *proxy.Manager
	ctls    map[int]*server.Control
	conns   []net.Conn
	lns     []net.Listener
}

var relSt *releaseState

func relClose() {
	if relSt == nil {
		return
	}
	st := relSt
	for _, c := range st.ctls {
		c.Close()
	}
	for _, c := range st.conns {
		c.Close()
	}
	for _, c := range st.ctls {
		c.WaitClosed()
	}
	for _, l := range st.lns {
		l.Close()
	}
	relSt = nil
}

func relReset() { relResetSub("") }

// relResetSub: the world of the release engine with the server's subDomainHost set (engine "grprel")
func relResetSub(subDomainHost string) {
	relClose()
	st := &releaseState{ctls: map[int]*server.Control{}}
	cfg := &v1.ServerConfig{}
	cfg.Complete()
	cfg.SubDomainHost = subDomainHost
	cfg.ProxyBindAddr = "127.0.0.1"
	cfg.VhostHTTPPort = 1 // only consulted by validation ("is the feature enabled")
	cfg.VhostHTTPSPort = 1
	cfg.TCPMuxHTTPConnectPort = 1
	cfg.UserConnTimeout = 1
	st.cfg = cfg
	st.routers = vhost.NewRouters()
	tcpPM := ports.NewManager("tcp", cfg.ProxyBindAddr, cfg.AllowPorts)
	l1, err := net.Listen("tcp", "127.0.0.1:0")
	if err != nil {
		panic(err)
	}
	l2, err := net.Listen("tcp", "127.0.0.1:0")
	if err != nil {
		panic(err)
	}
	st.lns = []net.Listener{l1, l2}
	httpsMux, _ := vhost.NewHTTPSMuxer(l1, 2*time.Second)
	tmux, _ := tcpmux.NewHTTPConnectTCPMuxer(l2, false, 2*time.Second)
	nc, _ := nathole.NewController(time.Hour)
	st.rc = &controller.ResourceController{
		VisitorManager:         visitor.NewManager(),
		TCPPortManager:         tcpPM,
		UDPPortManager:         ports.NewManager("udp", cfg.ProxyBindAddr, cfg.AllowPorts),
		TCPGroupCtl:            group.NewTCPGroupCtl(tcpPM),
		HTTPGroupCtl:           group.NewHTTPGroupController(st.routers),
		HTTPReverseProxy:       vhost.NewHTTPReverseProxy(vhost.HTTPReverseProxyOptions{}, st.routers),
		VhostHTTPSMuxer:        httpsMux,
		TCPMuxHTTPConnectMuxer: tmux,
		NatHoleController:      nc,
		PluginManager:          plugin.NewManager(),
	}
	st.rc.TCPMuxGroupCtl = group.NewTCPMuxGroupCtl(tmux)
	st.pm = proxy.NewManager()
	relSt = st
}

func (st *releaseState) ctl(sid int) *server.Control {
	if c, ok := st.ctls[sid]; ok {
		return c
	}
	a, b := net.Pipe()
	st.conns = append(st.conns, a, b)
	go func() {
		buf := make([]byte, 4096)
		for {
			if _, err := b.Read(buf); err != nil {
				return
			}
		}
	}()
	login := &msg.Login{RunID: "run" + strconv.Itoa(sid), User: "u" + strconv.Itoa(sid)}
	c, err := server.NewControl(context.Background(), st.rc, st.pm, st.rc.PluginManager,
		auth.NewAuthVerifier(st.cfg.Auth), a, false, login, st.cfg)
	if err != nil {
		panic(err)
	}
	c.Start()
	st.ctls[sid] = c
	return c
}

func relList(t string) []string {
	if t == "-" {
		return nil
	}
	out := []string{}
	for _, p := range strings.Split(t, ",") {
		out = append(out, unhx(p))
	}
	return out
}

func relDump3(rows [][3]string) string {
	out := []string{}
	for _, r := range rows {
		out = append(out, hx(r[0]+"|"+r[2]+"|"+r[1])) // domain|location|user
	}
	sort.Strings(out)
	return strings.Join(out, ",")
}

func (st *releaseState) view() string {
	names := func(xs []string) string {
		out := []string{}
		for _, x := range xs {
			out = append(out, hx(x))
		}
		sort.Strings(out)
		return strings.Join(out, ",")
	}
	return fmt.Sprintf("http[%s]https[%s]tcpmux[%s]visitor[%s]nathole[%s]names[%s]",
		relDump3(st.routers.VerifDump()), relDump3(st.rc.VhostHTTPSMuxer.VerifDump()),
		relDump3(st.rc.TCPMuxHTTPConnectMuxer.VerifDump()),
		names(st.rc.VisitorManager.VerifNames()), names(st.rc.NatHoleController.VerifClients()),
		names(st.pm.VerifNames()))
}

func relExec(tok []string) string {
	if tok[0] == "reset" {
		relReset()
		return "-"
	}
	st := relSt
	switch tok[0] {
	case "reg":
		sid, name, typ := atoi(tok[1]), tok[2], tok[3]
		m := &msg.NewProxy{ProxyName: name, ProxyType: typ}
		switch typ {
		case "http":
			m.CustomDomains, m.Locations, m.RouteByHTTPUser = relList(tok[4]), relList(tok[5]), unhx(tok[6])
		case "https":
			m.CustomDomains = relList(tok[4])
		case "tcpmux":
			m.CustomDomains, m.RouteByHTTPUser, m.Multiplexer = relList(tok[4]), unhx(tok[5]), "httpconnect"
		case "stcp", "sudp", "xtcp":
			m.Sk = "sk"
		}
		_, err := st.ctl(sid).RegisterProxy(m)
		if err != nil {
			s := err.Error()
			switch {
			case strings.Contains(s, "already exists"), strings.Contains(s, "already in use"):
				return "err:exists"
			case strings.Contains(s, "router config conflict"), strings.Contains(s, "is repeated"):
				return "err:conflict"
			}
			return "err:other:" + hx(s)
		}
		return "ok"
	case "close":
		_ = st.ctl(atoi(tok[1])).CloseProxy(&msg.CloseProxy{ProxyName: tok[2]})
		return "-"
	case "endsess":
		sid := atoi(tok[1])
		if c, ok := st.ctls[sid]; ok {
			c.Close()
			c.WaitClosed()
			delete(st.ctls, sid)
		}
		return "-"
	case "view":
		return st.view()
	}
	return "bad-op"
}

func relGen(rng *rand.Rand, n int, emit func(string)) {
	doms := []string{"a.example.com", "b.example.com", "A.Example.com", "c.org", "B.example.COM"}
	locs := []string{"", "/", "/a", "/ab"}
	users := []string{"", "", "alice"}
	emit("reset")
	id := 0
	live := map[string]int{}
	csv := func(pool []string, max int) string {
		k := rng.Intn(max + 1)
		if k == 0 {
			return "-"
		}
		out := []string{}
		for i := 0; i < k; i++ {
			out = append(out, hx(pick(rng, pool)))
		}
		return strings.Join(out, ",")
	}
	for i := 0; i < n; i++ {
		k := rng.Intn(100)
		switch {
		case k < 2:
			emit("reset")
			live = map[string]int{}
		case k < 50:
			id++
			name := fmt.Sprintf("p%d", id)
			if rng.Intn(4) == 0 && id > 2 {
				name = fmt.Sprintf("p%d", 1+rng.Intn(id))
			}
			sid := 1 + rng.Intn(3)
			typ := pick(rng, []string{"http", "http", "http", "https", "tcpmux", "stcp", "sudp", "xtcp"})
			line := fmt.Sprintf("reg %d %s %s", sid, name, typ)
			switch typ {
			case "http":
				d := csv(doms, 3)
				if d == "-" {
					d = hx(pick(rng, doms))
				}
				line += " " + d + " " + csv(locs, 2) + " " + hx(pick(rng, users))
			case "https":
				d := csv(doms, 3)
				if d == "-" {
					d = hx(pick(rng, doms))
				}
				line += " " + d
			case "tcpmux":
				d := csv(doms, 2)
				if d == "-" {
					d = hx(pick(rng, doms))
				}
				line += " " + d + " " + hx(pick(rng, users))
			}
			emit(line)
			live[name] = sid
		case k < 68:
			if len(live) == 0 {
				continue
			}
			ns := []string{}
			for nm := range live {
				ns = append(ns, nm)
			}
			sort.Strings(ns)
			nm := pick(rng, ns)
			sid := live[nm]
			if rng.Intn(5) == 0 {
				sid = 1 + rng.Intn(3)
			}
			emit(fmt.Sprintf("close %d %s", sid, nm))
			if sid == live[nm] {
				delete(live, nm)
			}
		case k < 76:
			sid := 1 + rng.Intn(3)
			emit(fmt.Sprintf("endsess %d", sid))
			for nm, s := range live {
				if s == sid {
					delete(live, nm)
				}
			}
		default:
			emit("view")
		}
	}
	emit("view")
	emit("reset")
}

func init() { register(&Engine{Name: "release", Gen: relGen, Exec: relExec}) }
