package main

// Round 5 addition to engine "conf" (C18): the `type` of a proxy / visitor definition through the real loader
// and on to the server.
//
//	ty p <fmt> <place> <strict> <spell> <base> k=v …   => rej:load | rej:val |
//	                                                       acc go=<t> wrap=<x> cli k=v … srv=ok k=v … |
//	                                                       acc go=<t> wrap=<x> cli k=v … srv=err:<kind>
//	ty v <fmt> <place> <strict> <spell> <base>         => rej:load | rej:val | acc go=<t> wrap=<x> ty=<x>
//	    ONE definition in a client configuration written as fmt = toml | yaml | json | ini (the legacy format:
//	    pkg/config/legacy parser + Convert_*_To_v1; no typed wrapper there, `wrap` repeats the Type), sitting in the
//	    main file (place = main) or in a file pulled in by `includes` (place = inc).  Its `type` key holds the spelling
//	    <spell> (x<hex>; `-` = the key is absent, `#` = the key holds a number); the other keys are a VALID
//	    definition of type <base> (k=v list, Go field paths; visitors: fixed valid fields).  The document goes
//	    through the real config.LoadClientConfig and validation.ValidateAllClientConfig — what `frpc -c`,
//	    `frpc verify` do.  When it is accepted the result reports
//	      go    the type whose Go struct the loader produced
//	      wrap  the Type of the typed wrapper (Typed{Proxy,Visitor}Config, read through LoadConfigureFromFile)
//	      cli   the loaded configuration: every field the server acts on for that type (its own Type among them)
//	      srv   (proxies) the real MarshalToMsg of the loaded configuration → JSON wire → the real server-side
//	            config.NewProxyConfigurerFromMsg: its error kind, or the same fields read back
//	    The property predicate (Lean: tyProxyHoldsOn / tyVisitorHoldsOn) is evaluated on exactly this result.

import (
	"encoding/json"
	"math/rand"
	"path/filepath"
	"reflect"
	"strconv"
	"strings"

	"github.com/fatedier/frp/pkg/config"
	"github.com/fatedier/frp/pkg/config/types"
	v1 "github.com/fatedier/frp/pkg/config/v1"
	"github.com/fatedier/frp/pkg/config/v1/validation"
	"github.com/fatedier/frp/pkg/msg"
)

var confVisitorTypes = []string{"stcp", "xtcp", "sudp"}

func goProxyType(pc v1.ProxyConfigurer) string {
	for _, t := range confTypes {
		if reflect.TypeOf(pc) == reflect.TypeOf(v1.NewProxyConfigurerByType(v1.ProxyType(t))) {
			return t
		}
	}
	return "?"
}

func goVisitorType(vc v1.VisitorConfigurer) string {
	for _, t := range confVisitorTypes {
		if reflect.TypeOf(vc) == reflect.TypeOf(v1.NewVisitorConfigurerByType(v1.VisitorType(t))) {
			return t
		}
	}
	return "?"
}

func confTy(tok []string) string {
	kind, format, place, strict, spell, base := tok[1], tok[2], tok[3], tok[4] == "1", tok[5], tok[6]
	isProxy := kind == "p"
	keys, vals := splitKV(tok[7:])

	item := []kv{}
	switch {
	case spell == "-":
	case spell == "#":
		item = append(item, kv{"type", 5})
	default:
		item = append(item, kv{"type", unhx(spell)})
	}
	if isProxy {
		rt := reflect.TypeOf(v1.NewProxyConfigurerByType(v1.ProxyType(base))).Elem()
		for i, k := range keys {
			if v := docValue(vals[i]); v != nil {
				setTree(&item, jsonKeyPath(rt, k), v)
			}
		}
	} else {
		item = append(item, kv{"name", "v1"}, kv{"serverName", "s1"}, kv{"secretKey", "k"}, kv{"bindPort", 9000})
	}
	section := map[bool]string{true: "proxies", false: "visitors"}[isProxy]
	holder := []kv{{section, [][]kv{item}}}
	var mainPath, holderPath string
	if format == "ini" {
		// the legacy format: [common] + one section whose `type` line carries the spelling as it is
		ikeys, ivals := keys, vals
		if !isProxy {
			ikeys = []string{"Name", "ServerName", "SecretKey", "BindPort"}
			ivals = []string{tyEncS("v1"), tyEncS("s1"), tyEncS("k"), "i9000"}
		}
		doc, ok := iniDoc(kind+":"+base, "", ikeys, ivals)
		if !ok {
			return "err:noini"
		}
		line := ""
		switch {
		case spell == "-":
		case spell == "#":
			line = "type = 5\n"
		default:
			line = "type = " + unhx(spell) + "\n"
		}
		doc = strings.Replace(doc, "type = "+base+"\n", line, 1)
		mainPath = writeTmp("ty/frpc.ini", doc)
	} else if place == "inc" {
		holderPath = writeTmp("ty/inc/d."+format, renderDoc(holder, format))
		mainPath = writeTmp("ty/frpc."+format, renderDoc([]kv{{"includes", []string{filepath.Join(filepath.Dir(holderPath), "*."+format)}}}, format))
	} else {
		mainPath = writeTmp("ty/frpc."+format, renderDoc(holder, format))
		holderPath = mainPath
	}

	cc, ps, vs, legacy, err := config.LoadClientConfig(mainPath, strict)
	if err != nil || legacy != (format == "ini") {
		return "rej:load"
	}
	if _, err := validation.ValidateAllClientConfig(cc, ps, vs); err != nil {
		return "rej:val"
	}
	// the typed wrapper of the element (LoadClientConfig drops it; the legacy format has none: the configurer's
	// own Type stands in)
	all := v1.ClientConfig{}
	if format == "ini" {
		for _, c := range ps {
			all.Proxies = append(all.Proxies, v1.TypedProxyConfig{Type: c.GetBaseConfig().Type, ProxyConfigurer: c})
		}
		for _, c := range vs {
			all.Visitors = append(all.Visitors, v1.TypedVisitorConfig{Type: c.GetBaseConfig().Type, VisitorConfigurer: c})
		}
	} else if err := config.LoadConfigureFromFile(holderPath, &all, strict); err != nil {
		return "rej:reload"
	}
	if !isProxy {
		if len(vs) != 1 || len(ps) != 0 || len(all.Visitors) != 1 {
			return "rej:count"
		}
		return "acc go=" + goVisitorType(vs[0]) + " wrap=" + hx(all.Visitors[0].Type) + " ty=" + hx(vs[0].GetBaseConfig().Type)
	}
	if len(ps) != 1 || len(vs) != 0 || len(all.Proxies) != 1 {
		return "rej:count"
	}
	pc := ps[0]
	// every field the server acts on for that type (the order of Frp.C18.serverFields)
	fields := []string{}
	for _, k := range confFields(goProxyType(pc)) {
		if k != "LocalIP" {
			fields = append(fields, k)
		}
	}
	if len(fields) == 0 {
		fields = append([]string{"Type"}, keys...)
	}
	dump := func(c v1.ProxyConfigurer) string {
		rv := reflect.ValueOf(c).Elem()
		out := []string{}
		for _, k := range fields {
			f := fieldByPathSafe(rv, k)
			if !f.IsValid() {
				out = append(out, k+"=z")
				continue
			}
			out = append(out, k+"="+encValue(f))
		}
		return strings.Join(out, " ")
	}
	head := "acc go=" + goProxyType(pc) + " wrap=" + hx(all.Proxies[0].Type) + " cli " + dump(pc)

	// what the client sends, over the wire, into the real server-side reconstruction
	var m msg.NewProxy
	pc.MarshalToMsg(&m)
	b, err := json.Marshal(&m)
	if err != nil {
		return head + " srv=err:json"
	}
	m = msg.NewProxy{}
	if err := json.Unmarshal(b, &m); err != nil {
		return head + " srv=err:json"
	}
	sc, err := config.NewProxyConfigurerFromMsg(&m, confServerCfg)
	if err != nil {
		if strings.Contains(err.Error(), "unknown proxy type") {
			return head + " srv=err:type"
		}
		return head + " srv=err:validate"
	}
	if reflect.TypeOf(sc) != reflect.TypeOf(pc) {
		return head + " srv=err:othertype:" + goProxyType(sc)
	}
	return head + " srv=ok " + dump(sc)
}

// ---------------------------------------------------------------- generator

// how a type name may be written by a person or a tool: the classes, not a list of literals
var tyLookalike = map[rune][]string{
	't': {"\u0442", "\uff54", "\u03c4"}, 'c': {"\u0441", "\uff43", "\u03f2"}, 'p': {"\u0440", "\uff50", "\u03c1"},
	'u': {"\u03c5", "\uff55", "\u057d"}, 'd': {"\u0501", "\uff44"}, 'h': {"\u04bb", "\uff48"},
	's': {"\u0455", "\uff53", "\u017f"}, 'x': {"\u0445", "\uff58"}, 'm': {"\uff4d", "\u043c"},
}

// space, tab, line ends, no-break space, ideographic space, zero-width space, byte order mark, thin space
var tySpaces = []string{" ", "\t", "\n", "\r\n", "\u00a0", "\u3000", "\u200b", "\ufeff", "\u2009"}

func respellType(rng *rand.Rand, t string, class int) string {
	switch class {
	case 0: // as documented
		return t
	case 1: // other letter cases
		switch rng.Intn(4) {
		case 0:
			return strings.ToUpper(t)
		case 1:
			return strings.ToUpper(t[:1]) + t[1:]
		case 2:
			return t[:len(t)-1] + strings.ToUpper(t[len(t)-1:])
		}
		for {
			if s := mixCase(rng, t); s != t {
				return s
			}
		}
	case 2: // surrounding / embedded white space and invisible characters
		sp := pick(rng, tySpaces)
		switch rng.Intn(4) {
		case 0:
			return sp + t
		case 1:
			return t + sp
		case 2:
			return sp + t + pick(rng, tySpaces)
		}
		i := 1 + rng.Intn(len(t)-1)
		return t[:i] + sp + t[i:]
	case 3: // unicode look-alikes (Cyrillic / Greek / full-width letters, long s), combining marks
		r := []rune(t)
		switch rng.Intn(4) {
		case 0: // every letter full-width
			out := ""
			for _, c := range r {
				out += string(rune(0xff41 + int(c-'a')))
			}
			return out
		case 1:
			return t + pick(rng, []string{"\u0301", "\u200d", "\u00ad"}) // combining acute, zero-width joiner, soft hyphen
		}
		for tries := 0; tries < 20; tries++ {
			i := rng.Intn(len(r))
			if alts, ok := tyLookalike[r[i]]; ok {
				return string(r[:i]) + pick(rng, alts) + string(r[i+1:])
			}
		}
		return "\uff54" + t[1:]
	case 4: // neighbours of the name: prefixes, suffixes, separators, the name of another family
		switch rng.Intn(7) {
		case 0:
			return t + pick(rng, []string{"4", "6", "s", "2", "_proxy", "-proxy"})
		case 1:
			return t[:len(t)-1]
		case 2:
			return strings.Replace(t, "mux", pick(rng, []string{"-mux", "_mux", "Mux", " mux"}), 1) + pick(rng, []string{"", ""})
		case 3:
			return pick(rng, []string{"", "ftp", "ssh", "tls", "quic", "kcp", "websocket", "http2https", "unix_domain_socket", "socks5", "null", "true", "0"})
		case 4:
			return pick(rng, []string{"v1." + t, t + ".v1", "proxy/" + t, t + ":", t + ",", "[" + t + "]", `"` + t + `"`, t + "\x00"})
		case 5:
			return t + "," + pick(rng, confTypes)
		}
		return strings.Repeat(t, 2)
	}
	panic("respell class")
}

func tyEncS(s string) string { return "s" + hx(s)[1:] }

func tyList(rng *rand.Rand, from []string) string {
	n := 1 + rng.Intn(3)
	parts := []string{}
	for i := 0; i < n; i++ {
		parts = append(parts, hx(pick(rng, from))[1:])
	}
	return "L" + strconv.Itoa(n) + ":" + strings.Join(parts, ",")
}

func tyMap(rng *rand.Rand, keys []string) string {
	m := map[string]string{}
	for i := 0; i < 1+rng.Intn(3); i++ {
		m[pick(rng, keys)] = pick(rng, confStrings)
	}
	return encValue(reflect.ValueOf(m))
}

// genTyFields: a VALID definition of proxy type t (client-side and server-side validation accept it), every
// server-relevant field present or absent on its own
func genTyFields(rng *rand.Rand, t string) []string {
	out := []string{"Name=" + tyEncS(pick(rng, []string{"p1", "web", "名前", "ключ", "A.b", "x=y,z~w", "tcp", " x "}))}
	opt := func(p int, kv string) {
		if rng.Intn(100) < p {
			out = append(out, kv)
		}
	}
	nonEmpty := []string{"a", "web", "名前", "ключ", "client", " x ", "A.b", "p@ss w0rd", "x=y,z~w", "v2"}
	opt(40, "Transport.UseEncryption=b1")
	opt(40, "Transport.UseCompression=b1")
	if rng.Intn(2) == 0 {
		q, _ := types.NewBandwidthQuantity(pick(rng, []string{"1MB", "10KB", "1.5MB", "100MB", "512KB"}))
		out = append(out, "Transport.BandwidthLimit="+encValue(reflect.ValueOf(&q).Elem()))
	}
	opt(50, "Transport.BandwidthLimitMode="+tyEncS(pick(rng, []string{"client", "server"})))
	opt(30, "LoadBalancer.Group="+tyEncS(pick(rng, nonEmpty)))
	opt(30, "LoadBalancer.GroupKey="+tyEncS(pick(rng, nonEmpty)))
	opt(40, "Metadatas="+tyMap(rng, nonEmpty))
	opt(30, "Annotations="+tyMap(rng, confAnnKeys))
	switch t {
	case "tcp", "udp":
		opt(80, "RemotePort=i"+strconv.Itoa(pick(rng, []int{1, 80, 6000, 65535, 1 + rng.Intn(65535)})))
	case "http", "https", "tcpmux":
		doms := []string{"a.example.com", "A.Example.COM", "xn--bcher-kva.example", "*.wild.org", "short", "UPPER.ORG"}
		switch rng.Intn(3) {
		case 0:
			out = append(out, "CustomDomains="+tyList(rng, doms))
		case 1:
			out = append(out, "SubDomain="+tyEncS(pick(rng, []string{"blog", "Blog", "a-b", "x1"})))
		default:
			out = append(out, "CustomDomains="+tyList(rng, doms), "SubDomain="+tyEncS(pick(rng, []string{"blog", "a-b"})))
		}
		if t == "tcpmux" {
			out = append(out, "Multiplexer="+tyEncS("httpconnect"))
		}
		if t != "https" {
			opt(40, "HTTPUser="+tyEncS(pick(rng, nonEmpty)))
			opt(40, "HTTPPassword="+tyEncS(pick(rng, nonEmpty)))
			opt(40, "RouteByHTTPUser="+tyEncS(pick(rng, nonEmpty)))
		}
		if t == "http" {
			opt(40, "Locations="+tyList(rng, []string{"/", "/a", "/a b", "/日本"}))
			opt(30, "HostHeaderRewrite="+tyEncS(pick(rng, []string{"internal.example", "h"})))
			opt(30, "RequestHeaders.Set="+tyMap(rng, []string{"X-From", "x-a", "Host"}))
			opt(30, "ResponseHeaders.Set="+tyMap(rng, []string{"X-To", "x-b"}))
		}
	default:
		opt(70, "Secretkey="+tyEncS(pick(rng, nonEmpty)))
		opt(50, "AllowUsers="+tyList(rng, []string{"*", "u1", "名", "a.b"}))
	}
	return out
}

func genTy(rng *rand.Rand) string {
	format := pick(rng, []string{"toml", "yaml", "json", "toml", "yaml", "json", "ini"})
	place := pick(rng, []string{"main", "main", "inc"})
	if format == "ini" {
		place = "main" // the legacy format resolves includes inside its own parser
	}
	strict := strconv.Itoa(rng.Intn(2))
	isProxy := rng.Intn(10) < 7
	var base string
	if isProxy {
		base = pick(rng, confTypes)
	} else {
		base = pick(rng, confVisitorTypes)
	}
	var spell string
	switch r := rng.Intn(100); {
	case r < 28:
		spell = hx(base)
	case r < 50:
		spell = hx(respellType(rng, base, 1))
	case r < 64:
		spell = hx(respellType(rng, base, 2))
	case r < 78:
		spell = hx(respellType(rng, base, 3))
	case r < 92:
		s := respellType(rng, base, 4)
		if !isProxy && rng.Intn(3) == 0 {
			s = pick(rng, []string{"tcp", "udp", "http", "https", "tcpmux"}) // a proxy-only type on a visitor
		}
		// a neighbour that happens to be another listed name of the same family is not a misspelling
		for _, t := range confTypes {
			if s == t && (isProxy || t == "stcp" || t == "xtcp" || t == "sudp") {
				s = t + "4"
			}
		}
		spell = hx(s)
	case r < 96:
		spell = "-"
	default:
		spell = "#"
	}
	if !isProxy {
		return strings.Join([]string{"ty", "v", format, place, strict, spell, base}, " ")
	}
	fields := genTyFields(rng, base)
	if format == "ini" {
		// only what the INI syntax carries unchanged (see iniDoc / iniSafe); the section name is the proxy name
		kept := []string{"Name=" + tyEncS(pick(rng, []string{"p1", "web", "名前", "x-y_z", "A.b"}))}
		for _, f := range fields[1:] {
			k, v := splitKV([]string{f})
			if _, ok := iniDoc("p:"+base, "", []string{"Name", k[0]}, []string{tyEncS("n"), v[0]}); ok {
				kept = append(kept, f)
			}
		}
		fields = kept
	}
	return strings.Join(append([]string{"ty", "p", format, place, strict, spell, base}, fields...), " ")
}
