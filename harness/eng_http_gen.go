package main

import (
	"encoding/base64"
	"fmt"
	"math/rand"
	"sort"
	"strings"
)

// Generator of engine "http" (C02): structured, overlap-rich traffic + a malformed stream.

type httpGenRoute struct {
	id               int
	domain, loc, usr string
	mode             string
}

var (
	httpGenDomains = []string{"a.example.com", "a.example.com", "b.example.com", "*.example.com", "example.org", "*"}
	httpGenLocs    = []string{"", "", "/", "/a", "/ab"}
	httpGenUsers   = []string{"", "", "", "alice"}
	httpGenMethods = []string{"GET", "GET", "GET", "POST", "POST", "PUT", "DELETE", "PATCH", "OPTIONS", "HEAD", "PURGE"}
	httpGenPaths   = []string{"/", "/", "/a", "/ab/x", "/a/b%20c", "/a%2Fb", "/%41b", "/a/../b", "/ab;p=1", "/a:b@c",
		"/~u/-_.!$&'()*+,=", "//double", "/b/index.html", "/a/", "/ab"}
	httpGenQueries = []string{"-", "-", "-", "", "x=1&y=2", "q=a%20b+c", "a=1&a=2&b", "z=%7E&%61=1", "u=http://x/y?z", "k=%zz", "a=1;b=2", "t=50%"}
	httpGenStatus  = []int{200, 200, 200, 200, 201, 204, 301, 302, 304, 400, 401, 403, 404, 418, 500, 502, 503}

	// request header lines (name, value); several names differ only in case, several are hop-by-hop
	httpGenReqHdrs = [][2]string{
		{"Accept", "text/html"}, {"accept", "*/*;q=0.8"}, {"ACCEPT-LANGUAGE", "en"}, {"X-Custom", "one"}, {"x-custom", "two"},
		{"X-Custom", "three, four"}, {"Cookie", "a=1; b=2"}, {"Cookie", "c=3"}, {"User-Agent", "curl/8.0"}, {"user-agent", "second-agent"},
		{"Accept-Encoding", "br"}, {"Accept-Encoding", "gzip"}, {"Range", "bytes=0-9"}, {"Referer", "http://r.example/?a=b"},
		{"X-Forwarded-For", "10.1.1.1"}, {"X-Forwarded-For", "10.2.2.2, 10.3.3.3"}, {"x-forwarded-for", "10.4.4.4"},
		{"X-Forwarded-Host", "evil.example"}, {"X-Forwarded-Proto", "https"}, {"Forwarded", "for=10.9.9.9"},
		{"X-Real-Ip", "10.5.5.5"}, {"X-From-Where", "user"}, {"If-None-Match", "\"abc\""}, {"Origin", "http://o.example"},
		{"Connection", "keep-alive"}, {"Connection", "close"}, {"Connection", "X-Hop, keep-alive"}, {"X-Hop", "h1"},
		{"connection", "x-custom"}, {"Keep-Alive", "timeout=5"}, {"Proxy-Connection", "keep-alive"}, {"Proxy-Authorization", "Bearer t"},
		{"Te", "trailers"}, {"TE", "gzip"}, {"Upgrade", "foo/1"}, {"Pragma", "no-cache"}, {"Via", "1.1 edge"},
		{"X-Weird.Name_1!", "v~"}, {"X-Empty", ""}, {"X-Spaces", "a  b\tc"}, {"X-Utf8", "caf\xc3\xa9"},
	}
	// RouteConfig.Headers candidates (keys pairwise distinct after canonicalisation)
	httpGenCfgHdrs = [][2]string{
		{"X-From-Where", "frp"}, {"x-lower-key", "v1"}, {"X-Forwarded-For", "1.2.3.4"}, {"User-Agent", "frp-agent"},
		{"Host", "hdr.host"}, {"X-Custom", "cfg"}, {"Accept-Encoding", "identity"}, {"X-Real-Ip", "9.9.9.9"}, {"Connection", "cfg-conn"},
		{"Content-Length", "7"}, {"X-Empty-Val", ""},
	}
	httpGenRespHdrs = [][2]string{
		{"Content-Type", "text/plain"}, {"content-type", "application/json"}, {"Set-Cookie", "a=1; Path=/"}, {"Set-Cookie", "b=2"},
		{"X-Backend", "v"}, {"x-backend", "w"}, {"Location", "http://a.example.com/x?y=1"}, {"Cache-Control", "max-age=1"},
		{"Date", "Tue, 01 Jan 2030 00:00:00 GMT"}, {"Server", "nginx"}, {"Etag", "\"e\""}, {"Vary", "Accept"}, {"Vary", "Origin"},
		{"Keep-Alive", "timeout=3"}, {"Proxy-Authenticate", "Basic realm=x"}, {"Connection", "X-Rhop"}, {"X-Rhop", "1"},
		{"Upgrade", "h2c"}, {"Te", "x"}, {"Content-Encoding", "identity"}, {"Www-Authenticate", "Basic realm=b"}, {"X-Resp-Set", "backend"},
		{"Content-Language", "en"}, {"X-Content-Type-Options", "nosniff"},
	}
	httpGenCfgRespHdrs = [][2]string{
		{"X-Resp-Set", "1"}, {"cache-control", "no-store"}, {"Content-Type", "text/x-frp"}, {"Server", "frp-set"}, {"Set-Cookie", "frp=1"},
		{"Keep-Alive", "cfg"}, {"Date", "cfg-date"},
	}
)

func httpGenHdrTok(h [][2]string) string {
	if len(h) == 0 {
		return "-"
	}
	var p []string
	for _, kv := range h {
		p = append(p, hx(kv[0])+":"+hx(kv[1]))
	}
	return strings.Join(p, ",")
}

func httpGenPickSome(rng *rand.Rand, pool [][2]string, max int, distinctCanon bool) [][2]string {
	n := rng.Intn(max + 1)
	var out [][2]string
	seen := map[string]bool{}
	for i := 0; i < n; i++ {
		kv := pool[rng.Intn(len(pool))]
		k := strings.ToLower(kv[0])
		if distinctCanon && seen[k] {
			continue
		}
		seen[k] = true
		out = append(out, kv)
	}
	return out
}

func httpGenBody(rng *rand.Rand, kinds []string) string {
	k := pick(rng, kinds)
	if k == "-" {
		return "-"
	}
	n := 0
	switch r := rng.Intn(100); {
	case r < 6:
		n = 0
	case r < 80:
		n = 1 + rng.Intn(300)
	case r < 95:
		n = 2000 + rng.Intn(6000)
	default:
		n = 65536 + rng.Intn(200000)
	}
	return k + ":" + httpEngTok(rng.Intn(100000), n)
}

func httpGenHost(rng *rand.Rand, d string) string {
	h := concreteHost(rng, d)
	h = haMixCase(rng, h)
	if rng.Intn(5) == 0 {
		h += pick(rng, []string{":80", ":8080", "."})
	}
	return h
}

func httpGenPoolKey(r httpGenRoute) string {
	b := base64.StdEncoding.EncodeToString
	return r.domain + "." + b([]byte(r.loc)) + "." + b([]byte(r.usr)) + "." + b(nil)
}

func httpEngGen(rng *rand.Rand, n int, emit func(string)) {
	emit("reset")
	id := 0
	routes := map[string]httpGenRoute{}
	var gone []httpGenRoute
	key := func(d, l, u string) string { return strings.ToLower(d) + "\x00" + l + "\x00" + u }
	reg := func(d, l, u, mode string) {
		id++
		rw := pick(rng, []string{"", "", "", "internal.local", "rw.example.org:8080"})
		ch := httpGenPickSome(rng, httpGenCfgHdrs, 3, true)
		crh := httpGenPickSome(rng, httpGenCfgRespHdrs, 2, true)
		if rng.Intn(3) == 0 {
			ch, crh, rw = nil, nil, ""
		}
		emit(fmt.Sprintf("reg %d %s %s %s %s %s %s %s", id, hx(d), hx(l), hx(u), hx(rw), httpGenHdrTok(ch), httpGenHdrTok(crh), mode))
		if _, dup := routes[key(d, l, u)]; !dup {
			routes[key(d, l, u)] = httpGenRoute{id, d, l, u, mode}
		}
	}
	anyRoute := func() (httpGenRoute, bool) {
		if len(routes) == 0 {
			return httpGenRoute{}, false
		}
		ks := make([]string, 0, len(routes))
		for k := range routes {
			ks = append(ks, k)
		}
		// map order is random: sort for determinism
		for i := range ks {
			for j := i + 1; j < len(ks); j++ {
				if ks[j] < ks[i] {
					ks[i], ks[j] = ks[j], ks[i]
				}
			}
		}
		return routes[ks[rng.Intn(len(ks))]], true
	}
	reqLine := func(cli int, form, method, host, path, query, user string, hdrs [][2]string, body string) string {
		st := pick(rng, httpGenStatus)
		rh := httpGenPickSome(rng, httpGenRespHdrs, 4, false)
		if rng.Intn(40) == 0 {
			rh = append(rh, [2]string{"X-Large", strings.Repeat("r", 3000+rng.Intn(4000))})
		}
		rb := httpGenBody(rng, []string{"-", "cl", "cl", "cl", "ch", "ch", "eof"})
		if st == 204 || st == 304 {
			rb = "-"
		}
		keep := "1"
		if rng.Intn(6) == 0 || strings.HasPrefix(rb, "eof") {
			keep = "0"
		}
		uq := "-"
		if user != "" {
			uq = hx(user)
		}
		q := "-"
		if query != "-" {
			q = hx(query)
		}
		return fmt.Sprintf("req %d %s %s %s %s %s %s %s %s %d %s %s %s", cli, form, method, hx(host), hx(path), q, uq,
			httpGenHdrTok(hdrs), body, st, httpGenHdrTok(rh), rb, keep)
	}
	// time lines of timed exchanges (ResponseHeaderTimeoutS = 1 ⇒ T = 1000 ms). Classes: whole exchange
	// well inside T / one phase (upload, download, tunnel idling) alone longer than T / phases each
	// shorter than T that add up to more than T / header block late but inside T followed by a long body.
	// Nothing is placed within 600 ms of T (real timers; the header wait is 0..300 ms or 1700 ms).
	gapList := func(total, k int) string {
		// k gaps that add up to about `total` ms: even / front-loaded / back-loaded / one long pause
		g := make([]int, k)
		switch rng.Intn(4) {
		case 0:
			for i := range g {
				g[i] = total / k
			}
		case 1:
			g[0] = total
		case 2:
			g[k-1] = total
		default:
			g[rng.Intn(k)] = total
		}
		p := make([]string, k)
		for i, x := range g {
			p[i] = fmt.Sprint(x)
		}
		return strings.Join(p, ".")
	}
	long := func() int { return 1300 + 100*rng.Intn(6) } // 1.3 … 1.8 s: longer than T with slack
	short := func() int { return 100 * rng.Intn(4) }     // 0 … 0.3 s
	okRoute := func() (httpGenRoute, bool) {
		for try := 0; try < 8; try++ {
			if r, ok := anyRoute(); ok && r.mode == "ok" {
				return r, true
			}
		}
		return httpGenRoute{}, false
	}
	silentDone := false
	// FAULTS MID-EXCHANGE (eng_http_fault.go), from an RNG of their own, every 24th op: on a route that is registered
	// right now (any mode: an unreachable one answers the not-found page, fault or not)
	frng := sideRng(0xfa17)
	faultOp := func() {
		if len(routes) == 0 {
			return
		}
		ks := make([]string, 0, len(routes))
		for k := range routes {
			ks = append(ks, k)
		}
		sort.Strings(ks)
		r := routes[ks[frng.Intn(len(ks))]]
		if r.mode == "silent" {
			return
		}
		path := "/"
		if r.loc != "" {
			path = r.loc
		}
		path = strings.TrimSuffix(path, "/") + pick(frng, []string{"/", "/", "/x", "/b%20c"})
		host := concreteHost(frng, r.domain)
		if frng.Intn(6) == 0 {
			// the h2c leg: the answer travels as an HTTP/2 stream (END_STREAM vs RST_STREAM)
			n := 1 + frng.Intn(20000)
			kind := pick(frng, []string{"cl", "ch", "ch", "eof"})
			k := frng.Intn(n + 1)
			if kind == "cl" && k == n {
				k = n - 1
			}
			uq := "-"
			if r.usr != "" {
				uq = hx(r.usr)
			}
			emit(fmt.Sprintf("fh2c %s %s %s %d %s:%s d%d", hx(host), hx(path), uq, pick(frng, []int{200, 200, 201, 500}), kind, httpEngTok(frng.Intn(100000), n), k))
			return
		}
		emit(httpGenFault(frng, host, path, r.usr))
	}
	// ERROR PATHS AGAINST A BODY IN FLIGHT (eng_http_err.go), from an RNG of their own, every 70th op
	errGen := &httpGenErrState{r: sideRng(0xe404)}
	for i := 0; i < n; i++ {
		if i%24 == 23 {
			faultOp()
		}
		if i%70 == 35 {
			errGen.op(routes, gone, emit)
		}
		k := rng.Intn(1000)
		switch {
		case k < 6:
			emit("reset")
			routes = map[string]httpGenRoute{}
			gone = nil
			errGen.reset()
			errGen.op(routes, gone, emit) // the table is empty: no host has a route
			errGen.op(routes, gone, emit)
		case k < 120:
			d := pick(rng, httpGenDomains)
			if rng.Intn(12) == 0 {
				d = haMixCase(rng, d)
			}
			mode := "ok"
			if rng.Intn(16) == 0 {
				mode = "unreach"
			}
			reg(d, pick(rng, httpGenLocs), pick(rng, httpGenUsers), mode)
		case k < 170:
			if r, ok := anyRoute(); ok && rng.Intn(5) != 0 {
				emit(fmt.Sprintf("unreg %s %s %s", hx(r.domain), hx(r.loc), hx(r.usr)))
				delete(routes, key(r.domain, r.loc, r.usr))
				gone = append(gone, r)
				if rng.Intn(2) == 0 { // the overlap that matters: somebody else takes the same route
					reg(r.domain, r.loc, r.usr, "ok")
				}
			} else {
				emit(fmt.Sprintf("unreg %s %s %s", hx(pick(rng, httpGenDomains)), hx(pick(rng, httpGenLocs)), hx(pick(rng, httpGenUsers))))
			}
		case k >= 866 && k < 872:
			// TIMED request / answer: paced upload, late header block, paced download
			r, ok := okRoute()
			if !ok {
				continue
			}
			method := pick(rng, []string{"GET", "GET", "POST", "PUT"})
			hdrs := httpGenPickSome(rng, httpGenReqHdrs, 3, false)
			if r.usr != "" {
				hdrs = append(hdrs, [2]string{"Authorization", httpEngBasic(r.usr)})
			}
			sized := func(kind string) string { return kind + ":" + httpEngTok(rng.Intn(100000), 1+rng.Intn(20000)) }
			body, upg := "-", "-"
			think, dng := short(), "-"
			cls := rng.Intn(8)
			if method != "GET" {
				body = sized(pick(rng, []string{"cl", "ch"}))
				switch cls {
				case 0, 1: // the upload alone outlasts T
					upg = gapList(long(), 1+rng.Intn(4))
				case 2, 3, 4: // upload and download each inside T, together beyond
					upg = gapList(700, 1+rng.Intn(3))
				case 5:
					upg = gapList(short(), 1+rng.Intn(3))
				}
			}
			rb := sized(pick(rng, []string{"cl", "cl", "ch", "ch", "eof"}))
			switch cls {
			case 0, 6: // the download alone outlasts T
				dng = gapList(long(), 1+rng.Intn(5))
			case 1, 5:
				dng = gapList(short(), 1+rng.Intn(3))
			case 2, 3, 4:
				dng = gapList(700, 1+rng.Intn(3))
			default: // header block too late: the gateway-timeout answer
				if rng.Intn(3) == 0 {
					think = 1700
				} else {
					dng = gapList(long(), 2)
				}
			}
			st := pick(rng, []int{200, 200, 201, 404, 500})
			keep := "1"
			if rng.Intn(4) == 0 || strings.HasPrefix(rb, "eof") {
				keep = "0"
			}
			uq := "-"
			if r.usr != "" {
				uq = hx(r.usr)
			}
			form := "o"
			if rng.Intn(8) == 0 {
				form = "a"
			}
			path := "/"
			if r.loc != "" {
				path = r.loc
			}
			emit(fmt.Sprintf("treq %d %s %s %s %s - %s %s %s %d %s %s %s %s %d %s", rng.Intn(3), form, method, hx(httpGenHost(rng, r.domain)),
				hx(strings.TrimSuffix(path, "/")+pick(rng, []string{"/", "/", "/x", "/b%20c"})), uq, httpGenHdrTok(hdrs), body, st,
				httpGenHdrTok(httpGenPickSome(rng, httpGenRespHdrs, 3, false)), rb, keep, upg, think, dng))
		case k >= 872 && k < 876:
			// TIMED tunnels: rounds of (user idles, sends; backend idles, answers)
			r, ok := okRoute()
			if !ok {
				continue
			}
			rounds := 1 + rng.Intn(3)
			g := make([]string, 2*rounds)
			for j := range g {
				g[j] = "0"
			}
			switch rng.Intn(4) {
			case 0: // idles that add up to more than T, none of them longer than T
				for j := range g {
					g[j] = fmt.Sprint(1500 / (2 * rounds))
				}
			case 1: // everything well inside T
				g[rng.Intn(len(g))] = fmt.Sprint(short())
			default: // one idle period longer than T: before the first byte, inside a round, between rounds
				g[rng.Intn(len(g))] = fmt.Sprint(long())
			}
			uq := "-"
			if r.usr != "" {
				uq = hx(r.usr)
			}
			up, dn := httpEngTok(rng.Intn(1000), rng.Intn(5000)), httpEngTok(rng.Intn(1000), rng.Intn(5000))
			if rng.Intn(4) == 0 {
				emit(fmt.Sprintf("tconnect %s %s %s %s %s", hx(concreteHost(rng, r.domain)+pick(rng, []string{":80", ":443"})), uq, up, dn, strings.Join(g, ".")))
			} else {
				path := "/"
				if r.loc != "" {
					path = r.loc
				}
				emit(fmt.Sprintf("tws %s %s %s %s %s %s", hx(httpGenHost(rng, r.domain)), hx(path), uq, up, dn, strings.Join(g, ".")))
			}
		case k < 880:
			d := pick(rng, httpGenDomains)
			user := ""
			if r, ok := anyRoute(); ok && rng.Intn(3) != 0 {
				d, user = r.domain, r.usr
			}
			if user == "" && rng.Intn(10) == 0 {
				user = "alice"
			}
			host := httpGenHost(rng, d)
			form := "o"
			if rng.Intn(6) == 0 {
				form = "a"
			}
			method := pick(rng, httpGenMethods)
			hdrs := httpGenPickSome(rng, httpGenReqHdrs, 5, false)
			if user != "" {
				hdrs = append(hdrs, [2]string{"Authorization", httpEngBasic(user)})
			}
			if rng.Intn(40) == 0 {
				hdrs = append(hdrs, [2]string{"X-Large", strings.Repeat("q", 4000+rng.Intn(4000))})
			}
			body := "-"
			switch method {
			case "POST", "PUT", "PATCH", "PURGE", "DELETE":
				body = httpGenBody(rng, []string{"-", "cl", "cl", "cl", "ch", "ch"})
			default:
				if rng.Intn(12) == 0 {
					body = httpGenBody(rng, []string{"cl", "ch"})
				}
			}
			query := pick(rng, httpGenQueries)
			if (strings.Contains(query, ";") || strings.Contains(query, "%z") || strings.HasSuffix(query, "%")) && rng.Intn(8) != 0 {
				query = "x=1&y=2" // unparsable queries (re-encoded by the standard proxy) stay rare
			}
			emit(reqLine(rng.Intn(3), form, method, host, pick(rng, httpGenPaths), query, user, hdrs, body))
		case k < 905:
			// a Host that spells the synthetic pool key of a present or former route
			var r httpGenRoute
			ok := false
			if len(gone) > 0 && rng.Intn(2) == 0 {
				r, ok = gone[rng.Intn(len(gone))], true
			} else {
				r, ok = anyRoute()
			}
			if !ok {
				continue
			}
			emit(reqLine(rng.Intn(3), "o", "GET", httpGenPoolKey(r), pick(rng, []string{"/", "/a", "/zz"}), "-", "", nil, "-"))
		case k < 945:
			d, user := pick(rng, httpGenDomains), ""
			if r, ok := anyRoute(); ok && rng.Intn(4) != 0 {
				d, user = r.domain, r.usr
			}
			uq := "-"
			if user != "" {
				uq = hx(user)
			}
			emit(fmt.Sprintf("ws %s %s %s %s %s", hx(httpGenHost(rng, d)), hx(pick(rng, []string{"/", "/a/ws", "/ab"})), uq,
				httpEngTok(rng.Intn(1000), rng.Intn(5000)), httpEngTok(rng.Intn(1000), rng.Intn(5000))))
		case k >= 945 && k < 952:
			// h2c upgrade (RFC 7540 3.2): the handler has to take the user connection over, as for a websocket
			d, user := pick(rng, httpGenDomains), ""
			if r, ok := anyRoute(); ok && rng.Intn(5) != 0 {
				d, user = r.domain, r.usr
			}
			uq := "-"
			if user != "" {
				uq = hx(user)
			}
			method, body := "GET", "-"
			if rng.Intn(3) == 0 {
				method, body = pick(rng, []string{"POST", "PUT"}), httpEngTok(rng.Intn(1000), rng.Intn(3000))
			}
			emit(fmt.Sprintf("h2c %s %s %s %s %s %d %s", hx(httpGenHost(rng, d)), hx(pick(rng, []string{"/", "/a/h2", "/ab"})), uq, method, body,
				pick(rng, []int{200, 200, 201, 404, 500}), httpEngTok(rng.Intn(1000), rng.Intn(100000))))
		case k < 970:
			d, user := pick(rng, httpGenDomains), ""
			if r, ok := anyRoute(); ok && rng.Intn(4) != 0 {
				d, user = r.domain, r.usr
			}
			uq := "-"
			if user != "" {
				uq = hx(user)
			}
			emit(fmt.Sprintf("connect %s %s %s %s", hx(concreteHost(rng, d)+pick(rng, []string{":80", ":443"})), uq,
				httpEngTok(rng.Intn(1000), rng.Intn(5000)), httpEngTok(rng.Intn(1000), rng.Intn(5000))))
		case k < 980:
			// the four client plugins: the request as frps forwards it (X-Forwarded-* already set)
			hdrs := httpGenPickSome(rng, httpGenReqHdrs, 4, false)
			var fw [][2]string
			for _, kv := range hdrs {
				lk := strings.ToLower(kv[0])
				if !strings.HasPrefix(lk, "x-forwarded-") && lk != "forwarded" {
					fw = append(fw, kv)
				}
			}
			pkind := pick(rng, []string{"h2h", "h2h", "h2hs", "hs2h", "hs2hs"})
			if pkind != "h2h" || rng.Intn(2) == 0 { // half of the http2http requests come without a forwarding chain
				fw = append(fw, [2]string{"X-Forwarded-For", pick(rng, []string{"203.0.113.9", "10.1.1.1, 203.0.113.9"})},
					[2]string{"X-Forwarded-Host", "plug.example.com"}, [2]string{"X-Forwarded-Proto", "http"})
			}
			method := pick(rng, httpGenMethods)
			body := "-"
			if method != "GET" && method != "HEAD" && method != "OPTIONS" {
				body = httpGenBody(rng, []string{"-", "cl", "ch"})
			}
			st := pick(rng, httpGenStatus)
			rb := httpGenBody(rng, []string{"-", "cl", "ch", "eof"})
			if st == 204 || st == 304 {
				rb = "-"
			}
			q := pick(rng, []string{"-", "-", "x=1&y=2", "q=a%20b+c"})
			if q != "-" {
				q = hx(q)
			}
			emit(fmt.Sprintf("plug %s %s %s %s %s %s %s %s %d %s %s", pkind,
				hx(pick(rng, []string{"", "local.svc"})), httpGenHdrTok(httpGenPickSome(rng, httpGenCfgHdrs[:2], 2, true)),
				method, hx(pick(rng, httpGenPaths)), q, httpGenHdrTok(fw), body, st,
				httpGenHdrTok(httpGenPickSome(rng, httpGenRespHdrs, 3, false)), rb))
		case k < 990:
			// malformed stream: what a well-formed client never sends
			emit(httpGenMalformed(rng))
		default:
			if silentDone && rng.Intn(8) != 0 {
				continue
			}
			silentDone = true
			id++
			emit(fmt.Sprintf("reg %d %s %s %s %s - - silent", id, hx("silent.example.net"), hx(""), hx(""), hx("")))
			other := "nobody.example.net"
			if r, ok := anyRoute(); ok && r.mode == "ok" && r.usr == "" && r.loc != "/a" && r.loc != "/ab" {
				other = concreteHost(rng, r.domain)
			}
			emit(fmt.Sprintf("silent %s %s", hx("silent.example.net"), hx(other)))
			emit(fmt.Sprintf("unreg %s %s %s", hx("silent.example.net"), hx(""), hx("")))
		}
	}
}

func httpGenMalformed(rng *rand.Rand) string {
	host := pick(rng, []string{"a.example.com", "w.example.com", "example.org"})
	switch rng.Intn(4) {
	case 0: // two configured keys that canonicalise to the same key: outcome depends on map iteration order
		return fmt.Sprintf("reg 9999 %s %s %s %s %s - ok", hx("dup.example.net"), hx(""), hx(""), hx(""),
			httpGenHdrTok([][2]string{{"X-Dup", "a"}, {"x-dup", "b"}}))
	case 1: // header name with a space / control byte, bare LF etc.: refused by net/http's server
		return fmt.Sprintf("req 0 o GET %s %s - - %s - 200 - - 1", hx(host), hx("/"), httpGenHdrTok([][2]string{{"X Bad", "v"}}))
	case 2: // raw space in the path
		return fmt.Sprintf("req 1 o GET %s %s - - - - 200 - - 1", hx(host), hx("/a b"))
	default: // bytes that net/url re-escapes
		return fmt.Sprintf("req 2 o GET %s %s - - - - 200 - - 1", hx(host), hx(pick(rng, []string{"/a\"b", "/a<b>", "/a^b|c", "/caf\xc3\xa9"})))
	}
}
