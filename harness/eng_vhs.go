package main

// Engine "vhs" (C08, the CLIENT side of an admitted visitor stream): the real client/visitor.Manager with a real
// STCPVisitor / SUDPVisitor / XTCPVisitor that falls back to an STCPVisitor, against a scripted peer on the other end
// of the connection ConnectServer returns.  The peer plays frps + the owner's frpc + the backend: it reads the
// NewVisitorConn message, builds the NewVisitorConnResp frame, puts the stack frps puts on a visitor connection
// (server/visitor Manager.NewConn: encryption with the secret key, compression — as DECLARED in the message) on top
// of the connection, lets the backend speak first through it, and hands "frame ++ first payload bytes" to a relay that
// delivers it in the segments the op names: ONE write (a relay / TCP that coalesces), split at any offset inside the
// frame, exactly at its end (the quiet case), inside the payload, byte by byte.  Then the user writes, the backend
// answers, the peer closes.  Reported: the exact wire image, the absolute cut offsets, what the backend wrote, what the
// user read until EOF (stcp / xfb) or the datagrams it got (sudp), what the backend read.
//
//	hs kind=<stcp|sudp|xfb> enc=<0|1> comp=<0|1> tr=<pipe|tcp> resp=<ok|err> g=<w,w,…|-> cuts=<c,c,…|-|all> up=<hex> re=<w,w,…|->
//	   g / re: the backend's writes before / after the user's bytes; stcp, xfb: w = "x"+hex (one Write each);
//	           sudp: w = p (a Ping frame of the owner) | "x"+hex (a UDPPacket for the user)
//	   cuts:   f<k> = k bytes into the frame, e<k> = k bytes past the end of the frame (e0 = exactly between frame and payload)
//	   => hello=<ok|…>;fl=<frame length>;wire=<hex>;abs=<a.b.c|->;sent=<hex[,hex…]>;got=<hex[,hex…]>;upgot=<hex>;end=<eof|open|timeout>
import (
	"bytes"
	"context"
	"encoding/hex"
	"fmt"
	"io"
	"math/rand"
	"net"
	"os"
	"sort"
	"strconv"
	"strings"
	"sync"
	"time"

	libio "github.com/fatedier/golib/io"

	"github.com/fatedier/frp/client/visitor"
	v1 "github.com/fatedier/frp/pkg/config/v1"
	"github.com/fatedier/frp/pkg/msg"
	"github.com/fatedier/frp/pkg/proto/udp"
	"github.com/fatedier/frp/pkg/transport"
	frplog "github.com/fatedier/frp/pkg/util/log"
	"github.com/fatedier/frp/pkg/util/util"
)

func init() {
	register(&Engine{Name: "vhs", Gen: vhsGen, Exec: vhsExec})
}

const vhsSecret = "c08-hs-secret"
const vhsRunID = "vhs-run"

type vhsPlan struct {
	kind            string
	enc, comp       bool
	tr              string
	refuse          bool
	greet, reply    []string // decoded writes ("\x00p" = ping for sudp)
	cuts            []string
	up              []byte
	userAddr        *net.UDPAddr
	proxyName       string
	hello, end      string
	frameLen        int
	wire            []byte
	abs             []int
	upgot           []byte
	sentDone, done  chan struct{}
	serverConnCount int
}

var vhsLogOnce sync.Once

const vhsPing = "\x00ping"

// what the peer writes while `hold` is set is collected instead of sent: the image of the first payload bytes
type vhsSplitConn struct {
	net.Conn
	hold bool
	buf  bytes.Buffer
}

func (s *vhsSplitConn) Write(p []byte) (int, error) {
	if s.hold {
		return s.buf.Write(p)
	}
	return s.Conn.Write(p)
}

func vhsResolveCuts(cuts []string, fl, total int) []int {
	set := map[int]bool{}
	for _, c := range cuts {
		switch {
		case c == "all":
			for i := 1; i < total; i++ {
				set[i] = true
			}
		case strings.HasPrefix(c, "f"):
			k := atoi(c[1:])
			if k >= fl {
				k = fl - 1
			}
			set[k] = true
		case strings.HasPrefix(c, "e"):
			set[fl+atoi(c[1:])] = true
		}
	}
	var abs []int
	for k := range set {
		if k > 0 && k < total {
			abs = append(abs, k)
		}
	}
	sort.Ints(abs)
	return abs
}

func (p *vhsPlan) writeDown(rw io.Writer, w string) error {
	if p.kind != "sudp" {
		_, err := rw.Write([]byte(w))
		return err
	}
	if w == vhsPing {
		return msg.WriteMsg(rw, &msg.Ping{})
	}
	return msg.WriteMsg(rw, udp.NewUDPPacket([]byte(w), nil, p.userAddr))
}

// the scripted peer: frps (handshake, the stack of Manager.NewConn) + owner + backend on one connection
func (p *vhsPlan) serve(c net.Conn) {
	defer close(p.done)
	defer c.Close()
	sentClosed := false
	defer func() {
		if !sentClosed {
			close(p.sentDone)
		}
	}()
	_ = c.SetDeadline(time.Now().Add(2 * time.Second)) // every wait of the peer is bounded
	var hello msg.NewVisitorConn
	if err := msg.ReadMsgInto(c, &hello); err != nil {
		p.hello = "unreadable"
		return
	}
	switch {
	case hello.ProxyName != p.proxyName:
		p.hello = "name"
	case hello.SignKey != util.GetAuthKey(vhsSecret, hello.Timestamp):
		p.hello = "sign"
	case hello.UseEncryption != p.enc || hello.UseCompression != p.comp:
		p.hello = "flags"
	case hello.RunID != vhsRunID:
		p.hello = "runid"
	default:
		p.hello = "ok"
	}
	resp := &msg.NewVisitorConnResp{ProxyName: hello.ProxyName}
	if p.refuse {
		resp.Error = "scripted refusal"
	}
	var fb bytes.Buffer
	_ = msg.WriteMsg(&fb, resp)
	frame := fb.Bytes()
	p.frameLen = len(frame)

	sw := &vhsSplitConn{Conn: c, hold: true}
	var rw io.ReadWriteCloser = sw
	if !p.refuse {
		if hello.UseEncryption {
			var err error
			if rw, err = libio.WithEncryption(rw, []byte(vhsSecret)); err != nil {
				p.hello = "encfail"
				return
			}
		}
		if hello.UseCompression {
			rw = libio.WithCompression(rw)
		}
	}
	for _, g := range p.greet {
		if err := p.writeDown(rw, g); err != nil {
			p.hello = "greetfail"
			return
		}
	}
	p.wire = append(append([]byte{}, frame...), sw.buf.Bytes()...)
	p.abs = vhsResolveCuts(p.cuts, len(frame), len(p.wire))
	if p.refuse {
		// a refused visitor need not read (nor close: the sudp visitor keeps the connection) what follows the frame
		_ = c.SetWriteDeadline(time.Now().Add(300 * time.Millisecond))
	}
	prev := 0
	for _, a := range append(append([]int{}, p.abs...), len(p.wire)) {
		if _, err := c.Write(p.wire[prev:a]); err != nil {
			break // the visitor went away (a refusal: it need not read what follows the frame)
		}
		prev = a
		if p.tr == "tcp" && a < len(p.wire) {
			time.Sleep(3 * time.Millisecond)
		}
	}
	sw.hold = false
	sentClosed = true
	close(p.sentDone)
	if p.refuse {
		return
	}
	if p.kind == "sudp" {
		m, err := msg.ReadMsg(rw)
		if err != nil {
			return
		}
		pk, ok := m.(*msg.UDPPacket)
		if !ok {
			return
		}
		content, _ := udp.GetContent(pk)
		p.upgot = content
		if pk.RemoteAddr == nil || pk.RemoteAddr.String() != p.userAddr.String() {
			p.upgot = append([]byte("BADADDR:"), content...)
		}
	} else if len(p.up) > 0 {
		buf := make([]byte, len(p.up))
		n, _ := io.ReadFull(rw, buf)
		p.upgot = buf[:n]
	}
	for _, r := range p.reply {
		if err := p.writeDown(rw, r); err != nil {
			return
		}
	}
}

type vhsNullTransporter struct{}

func (vhsNullTransporter) Send(msg.Message) error { return fmt.Errorf("no control connection") }
func (vhsNullTransporter) Do(ctx context.Context, req msg.Message, laneKey, recvMsgType string) (msg.Message, error) {
	return nil, fmt.Errorf("no control connection")
}
func (vhsNullTransporter) Dispatch(m msg.Message, laneKey string) bool { return false }
func (vhsNullTransporter) DispatchWithType(m msg.Message, msgType, laneKey string) bool {
	return false
}

var _ transport.MessageTransporter = vhsNullTransporter{}

func vhsFreeUDPPort() int {
	c, err := net.ListenUDP("udp4", &net.UDPAddr{IP: net.IPv4(127, 0, 0, 1)})
	if err != nil {
		panic(err)
	}
	defer c.Close()
	return c.LocalAddr().(*net.UDPAddr).Port
}

func vhsWrites(t string, sudp bool) []string {
	if t == "-" || t == "" {
		return nil
	}
	var out []string
	for _, w := range strings.Split(t, ",") {
		if sudp && w == "p" {
			out = append(out, vhsPing)
		} else {
			out = append(out, unhx(w))
		}
	}
	return out
}

func vhsHexList(ws [][]byte) string {
	s := make([]string, len(ws))
	for i, w := range ws {
		s[i] = hex.EncodeToString(w)
	}
	return strings.Join(s, ",")
}

func vhsExec(tok []string) string {
	// the xtcp visitor logs every fallback as an error (stdout is the trace)
	vhsLogOnce.Do(func() { frplog.InitLogger(os.DevNull, "error", 0, true) })
	if tok[0] == "reset" {
		return "ok"
	}
	if tok[0] != "hs" {
		return "badop"
	}
	kv := map[string]string{}
	for _, t := range tok[1:] {
		if i := strings.IndexByte(t, '='); i > 0 {
			kv[t[:i]] = t[i+1:]
		}
	}
	p := &vhsPlan{kind: kv["kind"], enc: kv["enc"] == "1", comp: kv["comp"] == "1", tr: kv["tr"], refuse: kv["resp"] == "err",
		up: []byte(unhx(kv["up"])), sentDone: make(chan struct{}), done: make(chan struct{}), end: "-"}
	sudp := p.kind == "sudp"
	p.greet = vhsWrites(kv["g"], sudp)
	p.reply = vhsWrites(kv["re"], sudp)
	if kv["cuts"] != "-" && kv["cuts"] != "" {
		p.cuts = strings.Split(kv["cuts"], ",")
	}
	p.proxyName = "px-" + p.kind

	// ---- the connection ConnectServer hands to the visitor
	var mu sync.Mutex
	var tcpLn net.Listener
	if p.tr == "tcp" {
		var err error
		if tcpLn, err = net.Listen("tcp", "127.0.0.1:0"); err != nil {
			panic(err)
		}
		defer tcpLn.Close()
	}
	connect := func() (net.Conn, error) {
		mu.Lock()
		p.serverConnCount++
		first := p.serverConnCount == 1
		mu.Unlock()
		if !first {
			return nil, fmt.Errorf("one visitor connection per op")
		}
		if p.tr == "tcp" {
			go func() {
				c, err := tcpLn.Accept()
				if err != nil {
					close(p.sentDone)
					close(p.done)
					return
				}
				p.serve(c)
			}()
			return net.DialTimeout("tcp", tcpLn.Addr().String(), 2*time.Second)
		}
		a, b := net.Pipe()
		go p.serve(b)
		return a, nil
	}

	common := &v1.ClientCommonConfig{UDPPacketSize: 1500}
	ctx, cancel := context.WithCancel(context.Background())
	defer cancel()
	mgr := visitor.NewManager(ctx, vhsRunID, common, connect, vhsNullTransporter{}, nil)
	defer mgr.Close()

	var cfgs []v1.VisitorConfigurer
	target := "v-stcp"
	var userUDP *net.UDPConn
	var visPort int
	switch p.kind {
	case "stcp", "xfb":
		sc := &v1.STCPVisitorConfig{}
		sc.Name, sc.Type, sc.ServerName, sc.SecretKey, sc.BindAddr, sc.BindPort = "v-stcp", "stcp", p.proxyName, vhsSecret, "127.0.0.1", -1
		sc.Transport.UseEncryption, sc.Transport.UseCompression = p.enc, p.comp
		cfgs = append(cfgs, sc)
		if p.kind == "xfb" {
			xc := &v1.XTCPVisitorConfig{}
			xc.Name, xc.Type, xc.ServerName, xc.SecretKey, xc.BindAddr, xc.BindPort = "v-xtcp", "xtcp", "px-xtcp-nowhere", vhsSecret, "127.0.0.1", -1
			// the xtcp visitor's own declarations concern the tunnel; the fallback stream is wrapped by the stcp visitor
			xc.Transport.UseEncryption, xc.Transport.UseCompression = !p.enc, p.comp
			xc.Protocol, xc.FallbackTo, xc.FallbackTimeoutMs = "quic", "v-stcp", 15
			xc.MaxRetriesAnHour, xc.MinRetryInterval = 8, 90
			cfgs = append(cfgs, xc)
			target = "v-xtcp"
		}
	case "sudp":
		visPort = vhsFreeUDPPort()
		uc := &v1.SUDPVisitorConfig{}
		uc.Name, uc.Type, uc.ServerName, uc.SecretKey, uc.BindAddr, uc.BindPort = "v-sudp", "sudp", p.proxyName, vhsSecret, "127.0.0.1", visPort
		uc.Transport.UseEncryption, uc.Transport.UseCompression = p.enc, p.comp
		cfgs = append(cfgs, uc)
		var err error
		if userUDP, err = net.ListenUDP("udp4", &net.UDPAddr{IP: net.IPv4(127, 0, 0, 1)}); err != nil {
			panic(err)
		}
		defer userUDP.Close()
		p.userAddr = userUDP.LocalAddr().(*net.UDPAddr)
	default:
		return "badkind"
	}
	mgr.UpdateAll(cfgs)
	for try := 0; try < 3 && p.kind == "sudp"; try++ {
		if _, running := mgr.VerifDump(); len(running) == len(cfgs) {
			break
		}
		// somebody else bound the port between the probe and Run: another one (a changed config replaces the visitor)
		visPort = vhsFreeUDPPort()
		cfgs[0].(*v1.SUDPVisitorConfig).BindPort = visPort
		nc := *cfgs[0].(*v1.SUDPVisitorConfig)
		cfgs[0] = &nc
		mgr.UpdateAll(cfgs)
	}
	if _, running := mgr.VerifDump(); len(running) != len(cfgs) {
		return "err=visitor-not-running"
	}

	// ---- what the backend writes for the user, in order
	var sent [][]byte
	if !p.refuse {
		for _, w := range append(append([]string{}, p.greet...), p.reply...) {
			if w != vhsPing {
				sent = append(sent, []byte(w))
			}
		}
	}
	var got [][]byte

	waitCh := func(ch chan struct{}, d time.Duration) bool {
		select {
		case <-ch:
			return true
		case <-time.After(d):
			return false
		}
	}

	if !sudp {
		uc, vc := net.Pipe()
		defer uc.Close()
		var rbuf bytes.Buffer
		rdone := make(chan struct{})
		go func() {
			defer close(rdone)
			b := make([]byte, 4096)
			for {
				n, err := uc.Read(b)
				mu.Lock()
				rbuf.Write(b[:n])
				mu.Unlock()
				if err != nil {
					return
				}
			}
		}()
		if err := mgr.TransferConn(target, vc); err != nil {
			return "err=transfer"
		}
		if !waitCh(p.sentDone, 2500*time.Millisecond) {
			p.end = "timeout"
		} else if len(p.up) > 0 && !p.refuse {
			_ = uc.SetWriteDeadline(time.Now().Add(2 * time.Second))
			_, _ = uc.Write(p.up)
		}
		if p.end != "timeout" {
			if waitCh(rdone, 3*time.Second) {
				p.end = "eof"
			} else {
				p.end = "open"
			}
		}
		uc.Close()
		<-rdone
		mu.Lock()
		if rbuf.Len() > 0 || len(sent) > 0 {
			got = [][]byte{append([]byte{}, rbuf.Bytes()...)}
		}
		mu.Unlock()
		if len(sent) > 0 {
			sent = [][]byte{bytes.Join(sent, nil)}
		}
		waitCh(p.done, time.Second)
	} else {
		want := len(sent)
		gotCh := make(chan struct{}, 64)
		go func() {
			b := make([]byte, 4096)
			for {
				n, _, err := userUDP.ReadFromUDP(b)
				if err != nil {
					return
				}
				mu.Lock()
				got = append(got, append([]byte{}, b[:n]...))
				mu.Unlock()
				gotCh <- struct{}{}
			}
		}()
		if _, err := userUDP.WriteToUDP(p.up, &net.UDPAddr{IP: net.IPv4(127, 0, 0, 1), Port: visPort}); err != nil {
			return "err=usersend"
		}
		if !waitCh(p.sentDone, 2500*time.Millisecond) {
			p.end = "timeout"
		} else {
			serverDone := waitCh(p.done, 3*time.Second)
			// datagrams have no EOF: all expected ones, or nothing new for a while after the peer has finished
			deadline := time.After(500 * time.Millisecond)
		loop:
			for {
				mu.Lock()
				n := len(got)
				mu.Unlock()
				if n >= want && want > 0 {
					break
				}
				select {
				case <-gotCh:
				case <-deadline:
					break loop
				case <-time.After(150 * time.Millisecond):
					if want == 0 {
						break loop
					}
				}
			}
			if want > 0 {
				// one more moment for a datagram too many
				select {
				case <-gotCh:
				case <-time.After(20 * time.Millisecond):
				}
			}
			p.end = "eof"
			if !serverDone {
				p.end = "open"
			}
		}
	}
	mgr.Close()
	mu.Lock()
	defer mu.Unlock()
	select {
	case <-p.done:
	default:
		// the peer is still running (it gives up at its 2 s deadline): do not read its fields
		return fmt.Sprintf("hello=pending;fl=0;wire=;abs=-;sent=%s;got=%s;upgot=;end=%s", vhsHexList(sent), vhsHexList(got), p.end)
	}
	abs := "-"
	if len(p.abs) > 0 {
		s := make([]string, len(p.abs))
		for i, a := range p.abs {
			s[i] = strconv.Itoa(a)
		}
		abs = strings.Join(s, ".")
	}
	if p.hello == "" {
		p.hello = "none"
	}
	return fmt.Sprintf("hello=%s;fl=%d;wire=%s;abs=%s;sent=%s;got=%s;upgot=%s;end=%s", p.hello, p.frameLen, hex.EncodeToString(p.wire), abs,
		vhsHexList(sent), vhsHexList(got), hex.EncodeToString(p.upgot), p.end)
}

// ---------------------------------------------------------------- generator

func vhsBytes(rng *rand.Rand, n int) string {
	b := make([]byte, n)
	switch rng.Intn(3) {
	case 0: // text, compressible
		const line = "220 backend ready ESMTP; the first bytes belong to the visitor's user\r\n"
		for i := range b {
			b[i] = line[i%len(line)]
		}
	case 1:
		for i := range b {
			b[i] = byte(rng.Intn(256))
		}
	default: // looks like a frame header: type byte + big-endian length
		for i := range b {
			b[i] = []byte{'4', 0, 0, 0, 0, 0, 0, 0, byte(rng.Intn(40)), '{', '}'}[i%11]
		}
	}
	return hx(string(b))
}

func vhsGen(rng *rand.Rand, n int, emit func(string)) {
	emit("reset")
	lens := []int{1, 2, 7, 16, 17, 40, 100, 300, 470, 520, 700}
	for i := 0; i < n; i++ {
		kind := pick(rng, []string{"stcp", "stcp", "stcp", "xfb", "sudp", "sudp"})
		enc, comp := rng.Intn(2), rng.Intn(2)
		tr := "pipe"
		if rng.Intn(6) == 0 {
			tr = "tcp"
		}
		resp := "ok"
		if rng.Intn(12) == 0 {
			resp = "err"
		}
		sudp := kind == "sudp"
		writes := func(max int, quiet int) string {
			k := rng.Intn(max + 1)
			if rng.Intn(quiet) == 0 {
				k = 0
			}
			if k == 0 {
				return "-"
			}
			var ws []string
			for j := 0; j < k; j++ {
				if sudp && rng.Intn(3) == 0 {
					ws = append(ws, "p")
				} else {
					ws = append(ws, vhsBytes(rng, pick(rng, lens)))
				}
			}
			return strings.Join(ws, ",")
		}
		g := writes(3, 5) // a backend that speaks first (most of the time), in 1-3 writes
		re := writes(2, 4)
		up := vhsBytes(rng, pick(rng, lens))
		if !sudp && rng.Intn(6) == 0 {
			up = "x" // the user only listens
		}
		var cuts string
		switch rng.Intn(10) {
		case 0, 1, 2, 3: // everything in one segment: a relay that coalesces
			cuts = "-"
		case 4: // the quiet case: the payload comes later than the frame
			cuts = "e0"
		case 5: // a cut inside the frame (type byte | length | body)
			cuts = "f" + strconv.Itoa(pick(rng, []int{1, 2, 8, 9, 10, 20, 1000}))
		case 6: // a cut inside the payload
			cuts = "e" + strconv.Itoa(pick(rng, []int{1, 2, 15, 16, 17, 30, 200, 460, 470, 480, 600}))
		case 7: // several
			cuts = "f" + strconv.Itoa(1+rng.Intn(30)) + ",e" + strconv.Itoa(rng.Intn(40)) + ",e" + strconv.Itoa(40+rng.Intn(500))
		case 8:
			cuts = "f" + strconv.Itoa(1+rng.Intn(30)) + ",f" + strconv.Itoa(1+rng.Intn(30))
		default:
			cuts = "all"
			if tr == "tcp" {
				cuts = "e" + strconv.Itoa(rng.Intn(20))
			}
		}
		emit(fmt.Sprintf("hs kind=%s enc=%d comp=%d tr=%s resp=%s g=%s cuts=%s up=%s re=%s", kind, enc, comp, tr, resp, g, cuts, up, re))
	}
}
