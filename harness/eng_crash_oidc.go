// Engine "crash" (C16), auth.method = oidc: the verifier is ONE object shared by every connection's goroutine.
//
// A third frps of the child, started by the first `ostorm` of a child (two RSA keys are generated for the in-process
// OpenID provider of eng_peer_auth.go), runs with auth.method = oidc against that provider and
// auth.additionalScopes = [HeartBeats, NewWorkConns]: logins, pings and work connections all go through the verifier.
//
//	ostorm <seed> <nconn> <n>     one session logs in alone (subject "fleet"); then nconn peers at once, n rounds each:
//	                              a login with a real RS256 token (the fleet's subject, a subject of its own, a token
//	                              signed by a key the provider does not publish), a Ping carrying a token on the new
//	                              session, a NewWorkConn for the first session carrying a token, a drop; finally a fresh
//	                              login must be answered                                        => done | fail:ostorm-<why>
package main

import (
	"context"
	"fmt"
	"math/rand"
	"net"
	"sync"
	"time"

	"github.com/samber/lo"

	"github.com/fatedier/frp/client"
	v1 "github.com/fatedier/frp/pkg/config/v1"
	"github.com/fatedier/frp/pkg/msg"
	netpkg "github.com/fatedier/frp/pkg/util/net"
	"github.com/fatedier/frp/pkg/util/version"
	"github.com/fatedier/frp/server"
)

type crashOIDC struct {
	svr    *server.Service
	port   int
	conn   client.Connector
	tokens map[string]string // subject -> a valid token
	forged string            // signed by a key the provider does not publish
}

var (
	crashOIDCOnce sync.Once
	crashOIDCW    *crashOIDC
)

func crashOIDCGet() *crashOIDC {
	crashOIDCOnce.Do(func() {
		idp := peerIdP()
		idp.set("k1", nil)
		o := &crashOIDC{tokens: map[string]string{}}
		var err error
		for attempt := 0; attempt < 5; attempt++ {
			cfg := &v1.ServerConfig{}
			cfg.BindAddr = "127.0.0.1"
			cfg.ProxyBindAddr = "127.0.0.1"
			cfg.BindPort = freeTCPPort()
			cfg.Auth.Method = v1.AuthMethodOIDC
			cfg.Auth.OIDC = v1.AuthOIDCServerConfig{Issuer: idp.issuer, Audience: peerDefaultAud}
			cfg.Auth.AdditionalScopes = []v1.AuthScope{v1.AuthScopeHeartBeats, v1.AuthScopeNewWorkConns}
			cfg.Transport.HeartbeatTimeout = 90
			cfg.UserConnTimeout = 2
			cfg.Complete()
			var svr *server.Service
			if svr, err = server.NewService(cfg); err != nil {
				continue
			}
			o.svr, o.port = svr, cfg.BindPort
			go svr.Run(context.Background())
			break
		}
		if o.svr == nil {
			panic(fmt.Sprint("cannot start the oidc frps: ", err))
		}
		cc := &v1.ClientCommonConfig{}
		cc.ServerAddr, cc.ServerPort = "127.0.0.1", o.port
		cc.Transport.TLS.Enable = lo.ToPtr(false)
		cc.Complete()
		cc.Transport.ProxyURL = ""
		o.conn = client.NewConnector(context.Background(), cc)
		if err := o.conn.Open(); err != nil {
			panic(err)
		}
		for _, sub := range []string{"fleet", "c0", "c1", "c2", "c3"} {
			o.tokens[sub] = idp.mint(sub, "", "", nil, "g", "f", "", "k1")
		}
		o.forged = idp.mint("fleet", "", "", nil, "g", "f", "", "k2")
		crashOIDCW = o
	})
	return crashOIDCW
}

// a login carrying `token`: (connection, crypto stream, run id) or nil
func (o *crashOIDC) login(token string) (net.Conn, *msg.LoginResp) {
	c, err := o.conn.Connect()
	if err != nil {
		return nil, nil
	}
	lm := &msg.Login{Version: version.Full(), Hostname: "oidc", Os: "linux", Arch: "amd64", Timestamp: time.Now().Unix(),
		PrivilegeKey: token, PoolCount: 0}
	_ = c.SetDeadline(time.Now().Add(crashWait))
	if err := msg.WriteMsg(c, lm); err != nil {
		c.Close()
		return nil, nil
	}
	m, err := msg.ReadMsg(c)
	_ = c.SetDeadline(time.Time{})
	if err != nil {
		c.Close()
		return nil, nil
	}
	resp, ok := m.(*msg.LoginResp)
	if !ok {
		c.Close()
		return nil, nil
	}
	return c, resp
}

func (w *crashWorld) ostorm(seed int64, nconn, n int) string {
	o := crashOIDCGet()
	c0, r0 := o.login(o.tokens["fleet"])
	if c0 == nil || r0.Error != "" {
		return "fail:ostorm-first-login"
	}
	defer c0.Close()
	crashDrain(c0)
	var wg sync.WaitGroup
	for i := 0; i < nconn; i++ {
		wg.Add(1)
		go func(i int) {
			defer wg.Done()
			r := rand.New(rand.NewSource(seed*977 + int64(i)))
			for k := 0; k < n; k++ {
				tok := o.tokens["fleet"]
				switch r.Intn(8) {
				case 0:
					tok = o.tokens[fmt.Sprintf("c%d", r.Intn(4))]
				case 1:
					tok = o.forged
				}
				if r.Intn(3) == 0 {
					// a work connection for the first session: verified with the shared verifier on a goroutine of its own
					c, err := o.conn.Connect()
					if err != nil {
						continue
					}
					_ = c.SetDeadline(time.Now().Add(crashWait))
					_ = msg.WriteMsg(c, &msg.NewWorkConn{RunID: r0.RunID, PrivilegeKey: tok, Timestamp: time.Now().Unix()})
					crashCount("oidcWork")
					if r.Intn(2) == 0 {
						buf := make([]byte, 1)
						_ = c.SetReadDeadline(time.Now().Add(5 * time.Millisecond))
						_, _ = c.Read(buf)
					}
					c.Close()
					continue
				}
				c, resp := o.login(tok)
				if c == nil {
					continue
				}
				crashCount("oidcLogin")
				if resp.Error == "" && r.Intn(2) == 0 {
					if rw, err := netpkg.NewCryptoReadWriter(c, []byte("")); err == nil {
						_ = c.SetDeadline(time.Now().Add(crashWait))
						_ = msg.WriteMsg(rw, &msg.Ping{PrivilegeKey: pick(r, []string{tok, o.tokens["c1"], o.forged}), Timestamp: time.Now().Unix()})
						if r.Intn(2) == 0 {
							_, _ = msg.ReadMsg(rw) // the Pong (or its refusal)
						}
						crashCount("oidcPing")
					}
				}
				c.Close()
			}
		}(i)
	}
	wg.Wait()
	c1, r1 := o.login(o.tokens["c2"])
	if c1 == nil {
		return "fail:ostorm-login-unanswered"
	}
	c1.Close()
	if r1.Error != "" {
		return "fail:ostorm-login-refused"
	}
	return "done"
}
