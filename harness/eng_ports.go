package main

import (
	"context"
	"fmt"
	"math/rand"
	"net"
	"sort"
	"strconv"
	"strings"
	"sync"
	"time"

	"github.com/fatedier/frp/pkg/auth"
	"github.com/fatedier/frp/pkg/config/types"
	v1 "github.com/fatedier/frp/pkg/config/v1"
	"github.com/fatedier/frp/pkg/msg"
	plugin "github.com/fatedier/frp/pkg/plugin/server"
	"github.com/fatedier/frp/pkg/util/verifhook"
	"github.com/fatedier/frp/pkg/util/vhost"
	"github.com/fatedier/frp/server"
	"github.com/fatedier/frp/server/controller"
	"github.com/fatedier/frp/server/group"
	"github.com/fatedier/frp/server/ports"
	"github.com/fatedier/frp/server/proxy"
	"github.com/fatedier/frp/server/visitor"
)

// Engine "ports" (property C09, also used by C10): real ports.Manager, real TCPProxy/UDPProxy via
// real Control.RegisterProxy / CloseProxy on a hand-assembled ResourceController, real sockets.
//
// Ports are relative: r stands for base+r; the allowed set is base+1 … base+8 (r = 0 and 9 are outside).
//
//	reset <maxPortsPerClient>
//	reg <sid> <name> <tcp|udp> <req> <grab>     => ok:<r> | err:<class>
//	       req: "any" (RemotePort 0) | r<k> (base+k) | raw<int> (literal value, e.g. -5, 70000)
//	       grab=1: another process binds the acquired port between Acquire and the proxy's own Listen
//	close <sid> <name>                          => -
//	fwdexit <name>                              => -      let the udp forwarder goroutine of a closed udp proxy run its deferred pxy.Close()
//	squat <tcp|udp> <k> / unsquat <tcp|udp> <k> => ok | busy | -
//	view                                        => canonical dump: tcp free/used, udp free/used, OS-bound ports, quotas
const portsK = 10

type portsState struct {
	base     int
	cfg      *v1.ServerConfig
	rc       *controller.ResourceController
	pm       *proxy.Manager
	ctls     map[int]*server.Control
	conns    []net.Conn
	squats   map[string]interface{ Close() error }
	grabNext map[string]bool        // proxy name -> grab its port at the gate
	parked   map[string]chan struct{} // udp forwarder exits parked, by proxy name
	grabbed  int                      // port taken by the last grab (0 = none)
	mu       sync.Mutex
}

var portSt *portsState

func portFree(p int) bool {
	l, err := net.Listen("tcp", "127.0.0.1:"+strconv.Itoa(p))
	if err != nil {
		return false
	}
	l.Close()
	a, _ := net.ResolveUDPAddr("udp", "127.0.0.1:"+strconv.Itoa(p))
	u, err := net.ListenUDP("udp", a)
	if err != nil {
		return false
	}
	u.Close()
	return true
}

func pickBase(rng *rand.Rand) int {
	for tries := 0; tries < 200; tries++ {
		b := 20000 + rng.Intn(30000)
		ok := true
		for i := 0; i < portsK; i++ {
			if !portFree(b + i) {
				ok = false
				break
			}
		}
		if ok {
			return b
		}
	}
	panic("no free port block")
}

var portsRng = rand.New(rand.NewSource(time.Now().UnixNano()))

func portsClose() {
	if portSt == nil {
		return
	}
	st := portSt
	verifhook.Set(nil)
	for _, ch := range st.parked {
		close(ch)
	}
	st.parked = map[string]chan struct{}{}
	for _, c := range st.ctls {
		c.Close()
	}
	for _, c := range st.conns {
		c.Close()
	}
	for _, c := range st.ctls {
		c.WaitClosed()
	}
	for _, s := range st.squats {
		s.Close()
	}
	portSt = nil
}

func portsReset(maxPorts int) {
	portsClose()
	st := &portsState{ctls: map[int]*server.Control{}, squats: map[string]interface{ Close() error }{},
		grabNext: map[string]bool{}, parked: map[string]chan struct{}{}}
	st.base = pickBase(portsRng)
	cfg := &v1.ServerConfig{}
	cfg.Complete()
	cfg.ProxyBindAddr = "127.0.0.1"
	cfg.AllowPorts = []types.PortsRange{{Start: st.base + 1, End: st.base + 8}}
	cfg.MaxPortsPerClient = int64(maxPorts)
	cfg.UserConnTimeout = 1
	st.cfg = cfg
	tcpPM := ports.NewManager("tcp", cfg.ProxyBindAddr, cfg.AllowPorts)
	routers := vhost.NewRouters()
	st.rc = &controller.ResourceController{
		VisitorManager:   visitor.NewManager(),
		TCPPortManager:   tcpPM,
		UDPPortManager:   ports.NewManager("udp", cfg.ProxyBindAddr, cfg.AllowPorts),
		TCPGroupCtl:      group.NewTCPGroupCtl(tcpPM),
		HTTPGroupCtl:     group.NewHTTPGroupController(routers),
		HTTPReverseProxy: vhost.NewHTTPReverseProxy(vhost.HTTPReverseProxyOptions{}, routers),
		PluginManager:    plugin.NewManager(),
	}
	st.pm = proxy.NewManager()
	portSt = st
	verifhook.Set(func(point string, keys []string) {
		switch point {
		case "tcp.run.acquired", "udp.run.acquired":
			st.mu.Lock()
			g := st.grabNext[keys[0]]
			delete(st.grabNext, keys[0])
			st.mu.Unlock()
			if g {
				// another process takes the port the proxy has just acquired
				proto := strings.SplitN(point, ".", 2)[0]
				_, used, _ := st.mgr(proto).VerifDump()
				for p, n := range used {
					if n == keys[0] {
						st.squat(proto, p)
						st.grabbed = p
					}
				}
			}
		case "udp.forwarder.exit":
			ch := make(chan struct{})
			st.mu.Lock()
			st.parked[keys[0]] = ch
			st.mu.Unlock()
			<-ch
		}
	})
}

func (st *portsState) mgr(proto string) *ports.Manager {
	if proto == "udp" {
		return st.rc.UDPPortManager
	}
	return st.rc.TCPPortManager
}

func (st *portsState) squat(proto string, p int) bool {
	key := proto + ":" + strconv.Itoa(p)
	if proto == "tcp" {
		l, err := net.Listen("tcp", "127.0.0.1:"+strconv.Itoa(p))
		if err != nil {
			return false
		}
		st.squats[key] = l
		return true
	}
	a, _ := net.ResolveUDPAddr("udp", "127.0.0.1:"+strconv.Itoa(p))
	u, err := net.ListenUDP("udp", a)
	if err != nil {
		return false
	}
	st.squats[key] = u
	return true
}

func (st *portsState) ctl(sid int) *server.Control {
	if c, ok := st.ctls[sid]; ok {
		return c
	}
	a, b := net.Pipe()
	st.conns = append(st.conns, a, b)
	go func() { // drain what the server writes to the client
		buf := make([]byte, 4096)
		for {
			if _, err := b.Read(buf); err != nil {
				return
			}
		}
	}()
	login := &msg.Login{RunID: "run" + strconv.Itoa(sid), User: "u" + strconv.Itoa(sid), PoolCount: 0}
	c, err := server.NewControl(context.Background(), st.rc, st.pm, st.rc.PluginManager,
		auth.NewAuthVerifier(st.cfg.Auth), a, false, login, st.cfg)
	if err != nil {
		panic(err)
	}
	c.Start()
	st.ctls[sid] = c
	return c
}

func classifyRegErr(err error) string {
	s := err.Error()
	switch {
	case strings.Contains(s, "port already used"):
		return "used"
	case strings.Contains(s, "port not allowed"):
		return "notallowed"
	case strings.Contains(s, "port unavailable"):
		return "unavailable"
	case strings.Contains(s, "no available port"):
		return "noavailable"
	case strings.Contains(s, "exceed the max_ports_per_client"):
		return "quota"
	case strings.Contains(s, "already exists"), strings.Contains(s, "already in use") && strings.Contains(s, "proxy name"):
		return "exists"
	case strings.Contains(s, "address already in use"), strings.Contains(s, "bind:"):
		return "listen"
	}
	return "other:" + hx(s)
}

func (st *portsState) parseReq(t string) int {
	switch {
	case t == "any":
		return 0
	case strings.HasPrefix(t, "raw"):
		return atoi(t[3:])
	default:
		return st.base + atoi(t[1:])
	}
}

func (st *portsState) osBound(proto string) []int {
	var out []int
	for i := 0; i < portsK; i++ {
		p := st.base + i
		if proto == "tcp" {
			l, err := net.Listen("tcp", "127.0.0.1:"+strconv.Itoa(p))
			if err != nil {
				out = append(out, i)
			} else {
				l.Close()
			}
		} else {
			a, _ := net.ResolveUDPAddr("udp", "127.0.0.1:"+strconv.Itoa(p))
			u, err := net.ListenUDP("udp", a)
			if err != nil {
				out = append(out, i)
			} else {
				u.Close()
			}
		}
	}
	return out
}

func (st *portsState) view() string {
	var sb strings.Builder
	for _, proto := range []string{"tcp", "udp"} {
		free, used, _ := st.mgr(proto).VerifDump()
		fs := []string{}
		for _, p := range free {
			fs = append(fs, strconv.Itoa(p-st.base))
		}
		us := []string{}
		for p, n := range used {
			us = append(us, fmt.Sprintf("%d=%s", p-st.base, n))
		}
		sort.Strings(us)
		bs := []string{}
		for _, i := range st.osBound(proto) {
			bs = append(bs, strconv.Itoa(i))
		}
		fmt.Fprintf(&sb, "%s[free=%s;used=%s;bound=%s]", proto, strings.Join(fs, ","), strings.Join(us, ","), strings.Join(bs, ","))
	}
	return sb.String()
}

func portsExec(tok []string) string {
	if tok[0] == "reset" {
		portsReset(atoi(tok[1]))
		return "-"
	}
	st := portSt
	switch tok[0] {
	case "reg":
		sid, name, proto := atoi(tok[1]), tok[2], tok[3]
		if tok[5] == "1" {
			st.mu.Lock()
			st.grabNext[name] = true
			st.mu.Unlock()
		}
		st.grabbed = 0
		m := &msg.NewProxy{ProxyName: name, ProxyType: proto, RemotePort: st.parseReq(tok[4])}
		addr, err := st.ctl(sid).RegisterProxy(m)
		st.mu.Lock()
		delete(st.grabNext, name)
		st.mu.Unlock()
		if err != nil {
			c := classifyRegErr(err)
			if c == "listen" && st.grabbed != 0 {
				c += ":" + strconv.Itoa(st.grabbed-st.base) // the port that had been acquired
			}
			return "err:" + c
		}
		p, _ := strconv.Atoi(strings.TrimPrefix(addr, ":"))
		return "ok:" + strconv.Itoa(p-st.base)
	case "close":
		hadUDP := false
		_, usedBefore, _ := st.rc.UDPPortManager.VerifDump()
		for _, n := range usedBefore {
			if n == tok[2] {
				hadUDP = true
			}
		}
		_ = st.ctl(atoi(tok[1])).CloseProxy(&msg.CloseProxy{ProxyName: tok[2]})
		if hadUDP {
			_, usedAfter, _ := st.rc.UDPPortManager.VerifDump()
			for _, n := range usedAfter {
				if n == tok[2] {
					hadUDP = false // not closed (foreign session)
				}
			}
		}
		if hadUDP {
			// wait until the forwarder goroutine of the closed udp proxy is parked at its gate (so that the
			// moment at which its deferred Close runs is decided by a later `fwdexit` op)
			for i := 0; i < 2000; i++ {
				st.mu.Lock()
				_, ok := st.parked[tok[2]]
				st.mu.Unlock()
				if ok {
					break
				}
				time.Sleep(time.Millisecond)
			}
		}
		return "-"
	case "fwdexit":
		st.mu.Lock()
		ch, ok := st.parked[tok[1]]
		delete(st.parked, tok[1])
		st.mu.Unlock()
		if ok {
			close(ch)
			time.Sleep(3 * time.Millisecond) // let the deferred Close (a map update under a mutex) finish
		}
		return "-"
	case "squat":
		p := st.base + atoi(tok[2])
		if _, ok := st.squats[tok[1]+":"+strconv.Itoa(p)]; ok {
			return "busy"
		}
		if st.squat(tok[1], p) {
			return "ok"
		}
		return "busy"
	case "unsquat":
		key := tok[1] + ":" + strconv.Itoa(st.base+atoi(tok[2]))
		if s, ok := st.squats[key]; ok {
			s.Close()
			delete(st.squats, key)
		}
		return "-"
	case "view":
		return st.view()
	}
	return "bad-op"
}

func portsGen(rng *rand.Rand, n int, emit func(string)) {
	var live map[string]int // name -> sid
	var closedUDP []string
	id := 0
	reset := func() {
		emit("reset " + strconv.Itoa(pick(rng, []int{0, 0, 2, 3, 5})))
		live = map[string]int{}
		closedUDP = nil
	}
	reset()
	req := func() string {
		switch k := rng.Intn(20); {
		case k < 7:
			return "any"
		case k < 17:
			return "r" + strconv.Itoa(rng.Intn(portsK))
		default:
			return "raw" + strconv.Itoa(pick(rng, []int{-5, 70000, 65536, -1, 1}))
		}
	}
	names := func() []string {
		out := make([]string, 0, len(live))
		for k := range live {
			out = append(out, k)
		}
		sort.Strings(out)
		return out
	}
	for i := 0; i < n; i++ {
		k := rng.Intn(100)
		switch {
		case k < 2:
			reset()
		case k < 42:
			proto := pick(rng, []string{"tcp", "tcp", "udp"})
			id++
			name := fmt.Sprintf("%s%d", proto[:1], id)
			// re-use names: a previously closed name (reserved port path) or a live one (duplicate)
			if rng.Intn(3) == 0 && id > 3 {
				name = fmt.Sprintf("%s%d", proto[:1], 1+rng.Intn(id))
			}
			sid := 1 + rng.Intn(3)
			grab := "0"
			if rng.Intn(12) == 0 {
				grab = "1"
			}
			emit(fmt.Sprintf("reg %d %s %s %s %s", sid, name, proto, req(), grab))
			live[name] = sid
		case k < 62:
			ns := names()
			if len(ns) == 0 {
				continue
			}
			nm := pick(rng, ns)
			sid := live[nm]
			if rng.Intn(6) == 0 {
				sid = 1 + rng.Intn(3) // possibly a session that does not own it
			}
			emit(fmt.Sprintf("close %d %s", sid, nm))
			if sid == live[nm] {
				delete(live, nm)
				if nm[0] == 'u' {
					closedUDP = append(closedUDP, nm)
				}
			}
		case k < 70:
			if len(closedUDP) == 0 {
				continue
			}
			j := rng.Intn(len(closedUDP))
			emit("fwdexit " + closedUDP[j])
			closedUDP = append(closedUDP[:j], closedUDP[j+1:]...)
		case k < 78:
			emit(fmt.Sprintf("squat %s %d", pick(rng, []string{"tcp", "udp"}), rng.Intn(portsK)))
		case k < 84:
			emit(fmt.Sprintf("unsquat %s %d", pick(rng, []string{"tcp", "udp"}), rng.Intn(portsK)))
		default:
			emit("view")
		}
	}
	emit("view")
	emit("reset 0")
}

func init() { register(&Engine{Name: "ports", Gen: portsGen, Exec: portsExec}) }
