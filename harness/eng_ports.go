package main

import (
	"context"
	"fmt"
	"math/rand"
	"net"
	"reflect"
	"sort"
	"strconv"
	"strings"
	"sync"
	"time"
	"unsafe"

	"github.com/fatedier/frp/pkg/auth"
	"github.com/fatedier/frp/pkg/config"
	"github.com/fatedier/frp/pkg/config/legacy"
	"github.com/fatedier/frp/pkg/config/types"
	v1 "github.com/fatedier/frp/pkg/config/v1"
	"github.com/fatedier/frp/pkg/msg"
	"github.com/fatedier/frp/pkg/util/verifhook"
	"github.com/fatedier/frp/server"
	"github.com/fatedier/frp/server/controller"
	"github.com/fatedier/frp/server/ports"
	"github.com/fatedier/frp/server/proxy"
)

// Engine "ports" (property C09, also used by C10): a real server.Service built by server.NewService from
// a ServerConfig that went through the real configuration path (allowPorts written as struct literal /
// --allow_ports flag text / TOML / legacy ini, then ServerConfig.Complete); its own ResourceController
// (port managers, TCPGroupCtl) and proxy.Manager are used by real Controls: real TCPProxy (plain and
// load-balancing group) / UDPProxy via Control.RegisterProxy / CloseProxy, real sockets.
//
// Ports are relative: r stands for base+r, the block is base … base+9; a port outside the block is
// printed as abs<p>.
//
//	reset <maxPortsPerClient> <form> <entries>
//	       form: lit | str | toml | ini      entries: s<k> (single base+k) | r<a>-<b> (range), comma separated
//	seed <form> <entries>                       => tcp=<intervals>;udp=<intervals> | err
//	       absolute entries ("-" = no allowPorts at all); the same configuration path, then
//	       ports.NewManager(netType, cfg.ProxyBindAddr, cfg.AllowPorts) as server.NewService calls it;
//	       the free sets as maximal intervals
//	reg <sid> <name> <tcp|udp> <req> <grab>     => ok:<r> | err:<class>
//	       req: "any" (RemotePort 0) | r<k> (base+k) | raw<int> (literal value, e.g. -5, 70000)
//	       grab=1: another process binds the acquired port between Acquire and the proxy's own Listen
//	regg <sid> <name> <group> <key> <req> <grab> => ok:<r> | err:<class>     tcp proxy with loadBalancer.group
//	close <sid> <name>                          => -
//	fwdexit <name>                              => -      let the udp forwarder goroutine of a closed udp proxy run its deferred pxy.Close()
//	squat <tcp|udp> <k> / unsquat <tcp|udp> <k> => ok | busy | -
//	view                                        => canonical dump: tcp free/used, udp free/used, OS-bound ports, quotas
const portsK = 10

type portsState struct {
	base     int
	cfg      *v1.ServerConfig
	svr      *server.Service
	rc       *controller.ResourceController
	pm       *proxy.Manager
	ctls     map[int]*server.Control
	conns    []net.Conn
	squats   map[string]interface{ Close() error }
	grabNext map[string]bool        // proxy name -> grab its port at the gate
	parked   map[string]chan struct{} // udp forwarder exits parked, by proxy name
	grabbed  int                      // port taken by the last grab (0 = none)
	mu       sync.Mutex
}

var portSt *portsState

func portFree(p int) bool {
	l, err := net.Listen("tcp", "127.0.0.1:"+strconv.Itoa(p))
	if err != nil {
		return false
	}
	l.Close()
	a, _ := net.ResolveUDPAddr("udp", "127.0.0.1:"+strconv.Itoa(p))
	u, err := net.ListenUDP("udp", a)
	if err != nil {
		return false
	}
	u.Close()
	return true
}

func pickBase(rng *rand.Rand) int {
	for tries := 0; tries < 200; tries++ {
		b := 10000 + rng.Intn(22000) // below the kernel's ephemeral range (32768…): no outgoing connection lands here
		ok := true
		for i := 0; i <= portsK; i++ { // base+portsK is the server's own bind port
			if !portFree(b + i) {
				ok = false
				break
			}
		}
		if ok {
			return b
		}
	}
	panic("no free port block")
}

var portsRng = rand.New(rand.NewSource(time.Now().UnixNano()))

func portsClose() {
	if portSt == nil {
		return
	}
	st := portSt
	verifhook.Set(nil)
	for _, ch := range st.parked {
		close(ch)
	}
	st.parked = map[string]chan struct{}{}
	for _, c := range st.ctls {
		c.Close()
	}
	for _, c := range st.conns {
		c.Close()
	}
	for _, c := range st.ctls {
		c.WaitClosed()
	}
	for _, s := range st.squats {
		s.Close()
	}
	if st.svr != nil {
		st.svr.Close()
	}
	portSt = nil
}

// an unexported pointer field of the Service that server.NewService built (read-only access: the harness
// must use the very managers NewService made from the configuration)
func portsSvcField[T any](svr *server.Service, name string) *T {
	f := reflect.ValueOf(svr).Elem().FieldByName(name)
	if !f.IsValid() || f.Kind() != reflect.Pointer || f.IsNil() {
		panic("server.Service has no pointer field " + name)
	}
	return (*T)(unsafe.Pointer(f.Pointer()))
}

// allowPorts entries of an op token: s<n> | r<a>-<b>, comma separated, "-" = none; off is added to every number
func portsParseEntries(t string, off int) []types.PortsRange {
	out := []types.PortsRange{}
	if t == "-" {
		return out
	}
	for _, e := range strings.Split(t, ",") {
		if e[0] == 's' {
			out = append(out, types.PortsRange{Single: atoi(e[1:]) + off})
		} else {
			ab := strings.SplitN(e[1:], "-", 2)
			out = append(out, types.PortsRange{Start: atoi(ab[0]) + off, End: atoi(ab[1]) + off})
		}
	}
	return out
}

// a ServerConfig whose allowPorts were written in the given form and loaded the way frps loads them
func portsConfig(form string, ents []types.PortsRange) (*v1.ServerConfig, error) {
	cfg := &v1.ServerConfig{}
	text := types.PortsRangeSlice(ents).String() // "1000-2000,3000"
	switch form {
	case "lit":
		cfg.AllowPorts = ents
	case "str": // frps --allow_ports=…
		if len(ents) > 0 {
			if err := (&config.PortsRangeSliceFlag{V: &cfg.AllowPorts}).Set(text); err != nil {
				return nil, err
			}
		}
	case "toml":
		var sb strings.Builder
		sb.WriteString("allowPorts = [")
		for i, e := range ents {
			if i > 0 {
				sb.WriteString(", ")
			}
			if e.Single > 0 {
				fmt.Fprintf(&sb, "{ single = %d }", e.Single)
			} else {
				fmt.Fprintf(&sb, "{ start = %d, end = %d }", e.Start, e.End)
			}
		}
		sb.WriteString("]\n")
		if err := config.LoadConfigure([]byte(sb.String()), cfg, true); err != nil {
			return nil, err
		}
	case "ini":
		src := "[common]\nbind_port = 7000\n"
		if len(ents) > 0 {
			src += "allow_ports = " + text + "\n"
		}
		lc, err := legacy.UnmarshalServerConfFromIni([]byte(src))
		if err != nil {
			return nil, err
		}
		cfg = legacy.Convert_ServerCommonConf_To_v1(&lc) // (a malformed allow_ports would be dropped silently here; not generated)
	default:
		panic("form " + form)
	}
	return cfg, nil
}

func portsIntervals(l []int) string {
	sort.Ints(l)
	var parts []string
	for i := 0; i < len(l); {
		j := i
		for j+1 < len(l) && l[j+1] <= l[j]+1 {
			j++
		}
		if l[i] == l[j] {
			parts = append(parts, strconv.Itoa(l[i]))
		} else {
			parts = append(parts, strconv.Itoa(l[i])+"-"+strconv.Itoa(l[j]))
		}
		i = j + 1
	}
	return strings.Join(parts, ",")
}

func portsSeed(form, ents string) string {
	cfg, err := portsConfig(form, portsParseEntries(ents, 0))
	if err != nil {
		return "err"
	}
	cfg.Complete()
	var out []string
	for _, nt := range []string{"tcp", "udp"} {
		free, _, _ := ports.NewManager(nt, cfg.ProxyBindAddr, cfg.AllowPorts).VerifDump() // as in server.NewService
		nonneg := free[:0]
		for _, p := range free {
			if p >= 0 {
				nonneg = append(nonneg, p)
			}
		}
		out = append(out, nt+"="+portsIntervals(nonneg))
	}
	return strings.Join(out, ";")
}

func portsReset(maxPorts int, form string, ents string) {
	portsClose()
	st := &portsState{ctls: map[int]*server.Control{}, squats: map[string]interface{ Close() error }{},
		grabNext: map[string]bool{}, parked: map[string]chan struct{}{}}
	for attempt := 0; ; attempt++ {
		st.base = pickBase(portsRng)
		cfg, err := portsConfig(form, portsParseEntries(ents, st.base))
		if err != nil {
			panic("reset: allowPorts not loadable: " + err.Error())
		}
		cfg.BindAddr = "127.0.0.1"
		cfg.BindPort = st.base + portsK
		cfg.MaxPortsPerClient = int64(maxPorts)
		cfg.UserConnTimeout = 1
		// a certificate from files: without one NewService generates an RSA key pair (~0.1 s of CPU per reset)
		cfg.Transport.TLS.CertFile, cfg.Transport.TLS.KeyFile = siteCert()
		cfg.Complete() // ProxyBindAddr = BindAddr
		svr, err := server.NewService(cfg)
		if err != nil {
			if attempt < 5 {
				continue // the bind port was taken meanwhile
			}
			panic("reset: NewService: " + err.Error())
		}
		st.cfg, st.svr = cfg, svr
		break
	}
	st.rc = portsSvcField[controller.ResourceController](st.svr, "rc")
	st.pm = portsSvcField[proxy.Manager](st.svr, "pxyManager")
	portSt = st
	verifhook.Set(func(point string, keys []string) {
		switch point {
		case "tcp.run.acquired", "udp.run.acquired", "tcpgroup.listen.acquired":
			st.mu.Lock()
			g := st.grabNext[keys[0]]
			delete(st.grabNext, keys[0])
			st.mu.Unlock()
			if g {
				// another process takes the port the proxy has just acquired
				proto := strings.SplitN(point, ".", 2)[0]
				if proto == "tcpgroup" {
					proto = "tcp"
				}
				_, used, _ := st.mgr(proto).VerifDump()
				for p, n := range used {
					if n == keys[0] {
						st.squat(proto, p)
						st.grabbed = p
					}
				}
			}
		case "udp.forwarder.exit":
			ch := make(chan struct{})
			st.mu.Lock()
			st.parked[keys[0]] = ch
			st.mu.Unlock()
			<-ch
		}
	})
}

func (st *portsState) mgr(proto string) *ports.Manager {
	if proto == "udp" {
		return st.rc.UDPPortManager
	}
	return st.rc.TCPPortManager
}

func (st *portsState) squat(proto string, p int) bool {
	key := proto + ":" + strconv.Itoa(p)
	if proto == "tcp" {
		l, err := net.Listen("tcp", "127.0.0.1:"+strconv.Itoa(p))
		if err != nil {
			return false
		}
		st.squats[key] = l
		return true
	}
	a, _ := net.ResolveUDPAddr("udp", "127.0.0.1:"+strconv.Itoa(p))
	u, err := net.ListenUDP("udp", a)
	if err != nil {
		return false
	}
	st.squats[key] = u
	return true
}

func (st *portsState) ctl(sid int) *server.Control {
	if c, ok := st.ctls[sid]; ok {
		return c
	}
	a, b := net.Pipe()
	st.conns = append(st.conns, a, b)
	go func() { // drain what the server writes to the client
		buf := make([]byte, 4096)
		for {
			if _, err := b.Read(buf); err != nil {
				return
			}
		}
	}()
	login := &msg.Login{RunID: "run" + strconv.Itoa(sid), User: "u" + strconv.Itoa(sid), PoolCount: 0}
	c, err := server.NewControl(context.Background(), st.rc, st.pm, st.rc.PluginManager,
		auth.NewAuthVerifier(st.cfg.Auth), a, false, login, st.cfg)
	if err != nil {
		panic(err)
	}
	c.Start()
	st.ctls[sid] = c
	return c
}

func classifyRegErr(err error) string {
	s := err.Error()
	switch {
	case strings.Contains(s, "port already used"):
		return "used"
	case strings.Contains(s, "port not allowed"):
		return "notallowed"
	case strings.Contains(s, "port unavailable"):
		return "unavailable"
	case strings.Contains(s, "no available port"):
		return "noavailable"
	case strings.Contains(s, "exceed the max_ports_per_client"):
		return "quota"
	case strings.Contains(s, "already exists"), strings.Contains(s, "already in use") && strings.Contains(s, "proxy name"):
		return "exists"
	case strings.Contains(s, "address already in use"), strings.Contains(s, "bind:"):
		return "listen"
	case strings.Contains(s, "group should have same remote port"):
		return "grpport"
	case strings.Contains(s, "group auth failed"):
		return "grpauth"
	}
	return "other:" + hx(s)
}

func (st *portsState) parseReq(t string) int {
	switch {
	case t == "any":
		return 0
	case strings.HasPrefix(t, "raw"):
		return atoi(t[3:])
	default:
		return st.base + atoi(t[1:])
	}
}

// block-relative name of a port; abs<p> outside the block
func (st *portsState) rel(p int) string {
	if p >= st.base && p < st.base+portsK {
		return strconv.Itoa(p - st.base)
	}
	return "abs" + strconv.Itoa(p)
}

func (st *portsState) osBound(proto string) []int {
	var out []int
	for i := 0; i < portsK; i++ {
		p := st.base + i
		if proto == "tcp" {
			l, err := net.Listen("tcp", "127.0.0.1:"+strconv.Itoa(p))
			if err != nil {
				out = append(out, i)
			} else {
				l.Close()
			}
		} else {
			a, _ := net.ResolveUDPAddr("udp", "127.0.0.1:"+strconv.Itoa(p))
			u, err := net.ListenUDP("udp", a)
			if err != nil {
				out = append(out, i)
			} else {
				u.Close()
			}
		}
	}
	return out
}

func (st *portsState) view() string {
	var sb strings.Builder
	for _, proto := range []string{"tcp", "udp"} {
		free, used, _ := st.mgr(proto).VerifDump()
		fs := []string{}
		out := 0
		for _, p := range free {
			if p >= st.base && p < st.base+portsK {
				fs = append(fs, strconv.Itoa(p-st.base))
			} else {
				out++
			}
		}
		if out > 0 {
			fs = append(fs, "out"+strconv.Itoa(out)) // free ports outside the block
		}
		us := []string{}
		for p, n := range used {
			us = append(us, fmt.Sprintf("%s=%s", st.rel(p), n))
		}
		sort.Strings(us)
		bs := []string{}
		for _, i := range st.osBound(proto) {
			bs = append(bs, strconv.Itoa(i))
		}
		fmt.Fprintf(&sb, "%s[free=%s;used=%s;bound=%s]", proto, strings.Join(fs, ","), strings.Join(us, ","), strings.Join(bs, ","))
	}
	return sb.String()
}

func portsExec(tok []string) string {
	if tok[0] == "reset" {
		portsReset(atoi(tok[1]), tok[2], tok[3])
		return "-"
	}
	if tok[0] == "seed" {
		return portsSeed(tok[1], tok[2])
	}
	st := portSt
	switch tok[0] {
	case "reg", "regg":
		sid, name, proto := atoi(tok[1]), tok[2], tok[3]
		m := &msg.NewProxy{ProxyName: name, ProxyType: proto}
		grab := tok[5]
		if tok[0] == "regg" {
			m.ProxyType, m.Group, m.GroupKey = "tcp", tok[3], tok[4]
			m.RemotePort, grab = st.parseReq(tok[5]), tok[6]
		} else {
			m.RemotePort = st.parseReq(tok[4])
		}
		if grab == "1" {
			st.mu.Lock()
			st.grabNext[name] = true
			st.mu.Unlock()
		}
		st.grabbed = 0
		addr, err := st.ctl(sid).RegisterProxy(m)
		st.mu.Lock()
		delete(st.grabNext, name)
		st.mu.Unlock()
		if err != nil {
			c := classifyRegErr(err)
			if c == "listen" && st.grabbed != 0 {
				c += ":" + st.rel(st.grabbed) // the port that had been acquired
			}
			return "err:" + c
		}
		p, _ := strconv.Atoi(strings.TrimPrefix(addr, ":"))
		return "ok:" + st.rel(p)
	case "close":
		hadUDP := false
		_, usedBefore, _ := st.rc.UDPPortManager.VerifDump()
		for _, n := range usedBefore {
			if n == tok[2] {
				hadUDP = true
			}
		}
		_ = st.ctl(atoi(tok[1])).CloseProxy(&msg.CloseProxy{ProxyName: tok[2]})
		if hadUDP {
			_, usedAfter, _ := st.rc.UDPPortManager.VerifDump()
			for _, n := range usedAfter {
				if n == tok[2] {
					hadUDP = false // not closed (foreign session)
				}
			}
		}
		if hadUDP {
			// wait until the forwarder goroutine of the closed udp proxy is parked at its gate (so that the
			// moment at which its deferred Close runs is decided by a later `fwdexit` op)
			for i := 0; i < 2000; i++ {
				st.mu.Lock()
				_, ok := st.parked[tok[2]]
				st.mu.Unlock()
				if ok {
					break
				}
				time.Sleep(time.Millisecond)
			}
		}
		return "-"
	case "fwdexit":
		st.mu.Lock()
		ch, ok := st.parked[tok[1]]
		delete(st.parked, tok[1])
		st.mu.Unlock()
		if ok {
			close(ch)
			time.Sleep(10 * time.Millisecond) // let the deferred Close (a map update under a mutex) finish (no event to wait for; generous: a late Release would move the failure to another op on re-execution)
		}
		return "-"
	case "squat":
		p := st.base + atoi(tok[2])
		if _, ok := st.squats[tok[1]+":"+strconv.Itoa(p)]; ok {
			return "busy"
		}
		if st.squat(tok[1], p) {
			return "ok"
		}
		return "busy"
	case "unsquat":
		key := tok[1] + ":" + strconv.Itoa(st.base+atoi(tok[2]))
		if s, ok := st.squats[key]; ok {
			s.Close()
			delete(st.squats, key)
		}
		return "-"
	case "view":
		return st.view()
	}
	return "bad-op"
}

// allowPorts entries as a class: 1-5 entries over the universe lo…hi, single ports and ranges; an entry is
// either independent of its predecessor or derived from it (touching it on either side, overlapping it,
// contained in it, containing it, equal to it, starting where it starts); the list is left in that order,
// reversed or shuffled.  reversedOK: now and then a range with start > end (it means no port).
func portsGenEntries(rng *rand.Rand, lo, hi int, reversedOK bool) string {
	type ent struct{ a, b int } // a == b && single: single port
	clamp := func(x int) int {
		if x < lo {
			return lo
		}
		if x > hi {
			return hi
		}
		return x
	}
	span := hi - lo + 1
	n := 1 + rng.Intn(5)
	var es []ent
	var singles []bool
	for i := 0; i < n; i++ {
		var a, b int
		if i > 0 && rng.Intn(2) == 0 {
			pa, pb := es[i-1].a, es[i-1].b
			if pa > pb {
				pa, pb = pb, pa
			}
			w := rng.Intn(span/3 + 1)
			switch rng.Intn(7) {
			case 0: // touches it from above
				a, b = pb+1, pb+1+w
			case 1: // touches it from below
				a, b = pa-1-w, pa-1
			case 2: // overlaps its upper end
				a, b = pa+rng.Intn(pb-pa+1), pb+1+w
			case 3: // overlaps its lower end
				a, b = pa-1-w, pa+rng.Intn(pb-pa+1)
			case 4: // inside it
				a = pa + rng.Intn(pb-pa+1)
				b = a + rng.Intn(pb-a+1)
			case 5: // the same again
				a, b = pa, pb
			default: // starts where it starts, reaches further
				a, b = pa, pb+1+w
			}
			a, b = clamp(a), clamp(b)
			if a > b {
				a, b = b, a
			}
		} else {
			a = lo + rng.Intn(span)
			b = a + rng.Intn(span/2+1)
			b = clamp(b)
		}
		single := rng.Intn(5) < 2
		if single {
			if rng.Intn(2) == 0 {
				a = b
			} else {
				b = a
			}
		} else if reversedOK && a < b && rng.Intn(15) == 0 {
			a, b = b, a
		}
		es = append(es, ent{a, b})
		singles = append(singles, single)
	}
	idx := rng.Perm(n)
	switch rng.Intn(3) {
	case 0:
		for i := range idx {
			idx[i] = i
		}
	case 1:
		for i := range idx {
			idx[i] = n - 1 - i
		}
	}
	parts := make([]string, n)
	for i, j := range idx {
		if singles[j] {
			parts[i] = "s" + strconv.Itoa(es[j].a)
		} else {
			parts[i] = fmt.Sprintf("r%d-%d", es[j].a, es[j].b)
		}
	}
	return strings.Join(parts, ",")
}

func portsGenForm(rng *rand.Rand) (form string, reversedOK bool) {
	form = pick(rng, []string{"lit", "str", "toml", "ini"})
	return form, form == "lit" || form == "toml"
}

func portsGen(rng *rand.Rand, n int, emit func(string)) {
	var live map[string]int // name -> sid
	var closedUDP []string
	var grpReq map[string]string // group -> the request its members usually make
	var closed []string          // names closed since the last reset (they have a reserved port)
	reqOf := map[string]string{} // name -> the request it was last registered with
	id := 0
	reset := func() {
		form, rev := portsGenForm(rng)
		ents := "r1-8" // the plain block, as often as all other shapes together
		if rng.Intn(2) == 0 {
			ents = portsGenEntries(rng, 0, portsK-1, rev)
		}
		emit(fmt.Sprintf("reset %d %s %s", pick(rng, []int{0, 0, 2, 3, 5}), form, ents))
		live = map[string]int{}
		closedUDP = nil
		closed = nil
		grpReq = map[string]string{}
	}
	seed := func() {
		form, rev := portsGenForm(rng)
		switch k := rng.Intn(60); {
		case k == 0:
			emit("seed " + form + " -") // no allowPorts: every port
		case k < 4: // a wide range among the entries
			w := 1 + rng.Intn(60000)
			emit(fmt.Sprintf("seed %s %s,r%d-%d", form, portsGenEntries(rng, w, w+40, rev), w+20, w+20+rng.Intn(5000)))
		default:
			w := 1 + rng.Intn(65000)
			emit("seed " + form + " " + portsGenEntries(rng, w, w+rng.Intn(80)+5, rev))
		}
	}
	reset()
	req := func() string {
		switch k := rng.Intn(20); {
		case k < 7:
			return "any"
		case k < 17:
			return "r" + strconv.Itoa(rng.Intn(portsK))
		default:
			return "raw" + strconv.Itoa(pick(rng, []int{-5, 70000, 65536, -1, 1}))
		}
	}
	names := func() []string {
		out := make([]string, 0, len(live))
		for k := range live {
			out = append(out, k)
		}
		sort.Strings(out)
		return out
	}
	for i := 0; i < n; i++ {
		k := rng.Intn(100)
		switch {
		case k < 3:
			reset()
		case k < 10:
			seed()
		case k < 42:
			proto := pick(rng, []string{"tcp", "tcp", "udp"})
			id++
			name := fmt.Sprintf("%s%d", proto[:1], id)
			// re-use names: a previously closed name (reserved port path) or a live one (duplicate)
			if rng.Intn(3) == 0 && id > 3 {
				name = fmt.Sprintf("%s%d", proto[:1], 1+rng.Intn(id))
			}
			sid := 1 + rng.Intn(3)
			grab := "0"
			if rng.Intn(12) == 0 {
				grab = "1"
			}
			// a previously closed name comes back, usually asking for a server-chosen port (reserved-port path)
			back := false
			if len(closed) > 0 && rng.Intn(5) == 0 {
				name = pick(rng, closed)
				proto = map[byte]string{'t': "tcp", 'u': "udp"}[name[0]]
				back = true
			}
			rq := "any"
			if back && rng.Intn(4) != 0 {
				if proto == "tcp" && rng.Intn(4) == 0 {
					emit(fmt.Sprintf("regg %d %s %s k any %s", sid, name, pick(rng, []string{"g1", "g2"}), grab))
				} else {
					emit(fmt.Sprintf("reg %d %s %s any %s", sid, name, proto, grab))
				}
			} else if proto == "tcp" && rng.Intn(5) < 2 {
				// member of a load-balancing group: usually what the group's members ask for (server-chosen
				// port as often as a fixed one), now and then another port / another key
				g := pick(rng, []string{"g1", "g1", "g2"})
				r, ok := grpReq[g]
				if !ok || rng.Intn(8) == 0 {
					r = req()
					if rng.Intn(2) == 0 {
						r = "any"
					}
					if !ok {
						grpReq[g] = r
					}
				}
				key := "k"
				if rng.Intn(10) == 0 {
					key = "x"
				}
				rq = r
				emit(fmt.Sprintf("regg %d %s %s %s %s %s", sid, name, g, key, r, grab))
			} else {
				rq = req()
				emit(fmt.Sprintf("reg %d %s %s %s %s", sid, name, proto, rq, grab))
			}
			live[name] = sid
			reqOf[name] = rq
		case k < 62:
			ns := names()
			if len(ns) == 0 {
				continue
			}
			nm := pick(rng, ns)
			sid := live[nm]
			if rng.Intn(6) == 0 {
				sid = 1 + rng.Intn(3) // possibly a session that does not own it
			}
			emit(fmt.Sprintf("close %d %s", sid, nm))
			if sid == live[nm] {
				delete(live, nm)
				closed = append(closed, nm)
				if nm[0] == 'u' {
					closedUDP = append(closedUDP, nm)
				}
				// the port a proxy has just given back is asked for again at once, by another proxy and by its
				// number (for udp: before the old proxy's forwarder goroutine is gone, which then exits)
				if rq := reqOf[nm]; strings.HasPrefix(rq, "r") && !strings.HasPrefix(rq, "raw") && rng.Intn(3) == 0 {
					proto := map[byte]string{'t': "tcp", 'u': "udp"}[nm[0]]
					id++
					nn := fmt.Sprintf("%s%d", proto[:1], id)
					nsid := 1 + rng.Intn(3)
					emit(fmt.Sprintf("reg %d %s %s %s 0", nsid, nn, proto, rq))
					live[nn] = nsid
					reqOf[nn] = rq
					if proto == "udp" {
						emit("fwdexit " + nm)
						closedUDP = closedUDP[:len(closedUDP)-1]
					}
					emit("view")
				}
			}
		case k < 70:
			if len(closedUDP) == 0 {
				continue
			}
			j := rng.Intn(len(closedUDP))
			emit("fwdexit " + closedUDP[j])
			closedUDP = append(closedUDP[:j], closedUDP[j+1:]...)
		case k < 78:
			emit(fmt.Sprintf("squat %s %d", pick(rng, []string{"tcp", "udp"}), rng.Intn(portsK)))
		case k < 84:
			emit(fmt.Sprintf("unsquat %s %d", pick(rng, []string{"tcp", "udp"}), rng.Intn(portsK)))
		default:
			emit("view")
		}
	}
	emit("view")
	emit("reset 0 lit r1-8")
}

func init() { register(&Engine{Name: "ports", Gen: portsGen, Exec: portsExec}) }
