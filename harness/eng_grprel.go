package main

import (
	"fmt"
	"math/rand"
	"reflect"
	"sort"
	"strings"
	"sync"
	"time"
	"unsafe"

	"github.com/fatedier/frp/pkg/msg"
	"github.com/fatedier/frp/pkg/util/verifhook"
	"github.com/fatedier/frp/pkg/util/vhost"
	"github.com/fatedier/frp/server/group"
)

// Engine "grprel" (property C10): http proxies WITH AND WITHOUT a load-balancing group through the real
// Control.RegisterProxy / CloseProxy / session end (Control.Close → worker) of three sessions on the
// hand-assembled ResourceController of the release engine (server/proxy/http.go Run / Close,
// server/group/http.go HTTPGroupController / HTTPGroup, pkg/util/vhost/router.go).
//
//	reset
//	reg <sid> <name> <domains> <subdomain> <locations> <routeUser> <group> <groupKey>
//	      <domains>, <locations>: comma separated hx tokens ("-" = none), the others hx tokens
//	      => ok | err:exists | err:conflict | err:params | err:auth | err:repeated | err:other:<text>
//	close <sid> <name>                => -
//	endsess <sid>                     => -      (control connection dropped; waits for the teardown)
//	race <sidL> <leaver> <sidJ> <name> <domains> <subdomain> <locations> <routeUser> <group> <groupKey>
//	      CloseProxy(leaver) of session sidL and RegisterProxy(name …) of session sidJ run CONCURRENTLY: the
//	      close is started first and held inside vhost.Routers.Del (the harness keeps a read lock on the
//	      route table, i.e. a request is being routed), the registration is started, then the read lock is
//	      dropped.  => the registration's answer (as for reg) | samesess | timeout
//	view  => http[domain|location|user,…]names[…]groups[group=member+member,…]
//	      (groups: HTTPGroupController.groups read through reflection; groups without member are not listed)
const gpSubHost = "sub.test"

func gpRoutersMutex(r *vhost.Routers) *sync.RWMutex {
	f := reflect.ValueOf(r).Elem().FieldByName("mutex")
	return (*sync.RWMutex)(unsafe.Pointer(f.UnsafeAddr()))
}

// gpGroups dumps HTTPGroupController.groups: group name -> sorted member names (pxyNames); quiescent use only
func gpGroups(c *group.HTTPGroupController) string {
	out := []string{}
	it := reflect.ValueOf(c).Elem().FieldByName("groups").MapRange()
	for it.Next() {
		g := it.Value().Elem()
		names := g.FieldByName("pxyNames")
		ms := []string{}
		for i := 0; i < names.Len(); i++ {
			ms = append(ms, hx(names.Index(i).String()))
		}
		if n := g.FieldByName("createFuncs").Len(); n != len(ms) {
			ms = append(ms, fmt.Sprintf("FUNCS%d", n)) // the two member tables of a group disagree
		}
		if len(ms) == 0 {
			continue
		}
		sort.Strings(ms)
		out = append(out, hx(it.Key().String())+"="+strings.Join(ms, "+"))
	}
	// by group name (the hx token alone: a name that is a prefix of another one comes first)
	sort.Slice(out, func(i, j int) bool { return strings.SplitN(out[i], "=", 2)[0] < strings.SplitN(out[j], "=", 2)[0] })
	return strings.Join(out, ",")
}

func gpView(st *releaseState) string {
	names := []string{}
	for _, n := range st.pm.VerifNames() {
		names = append(names, hx(n))
	}
	sort.Strings(names)
	return fmt.Sprintf("http[%s]names[%s]groups[%s]", relDump3(st.routers.VerifDump()),
		strings.Join(names, ","), gpGroups(st.rc.HTTPGroupCtl))
}

func gpMsg(tok []string) *msg.NewProxy {
	// tok: name domains sub locations user group key
	return &msg.NewProxy{ProxyName: tok[0], ProxyType: "http", CustomDomains: relList(tok[1]), SubDomain: unhx(tok[2]),
		Locations: relList(tok[3]), RouteByHTTPUser: unhx(tok[4]), Group: unhx(tok[5]), GroupKey: unhx(tok[6])}
}

func gpClassify(err error) string {
	if err == nil {
		return "ok"
	}
	s := err.Error()
	switch {
	case strings.Contains(s, "already exists"), strings.Contains(s, "already in use"):
		return "err:exists"
	case strings.Contains(s, vhost.ErrRouterConfigConflict.Error()):
		return "err:conflict"
	case strings.Contains(s, group.ErrGroupParamsInvalid.Error()):
		return "err:params"
	case strings.Contains(s, group.ErrGroupAuthFailed.Error()):
		return "err:auth"
	case strings.Contains(s, group.ErrProxyRepeated.Error()):
		return "err:repeated"
	}
	return "err:other:" + hx(s)
}

func gpRace(st *releaseState, sidL int, leaver string, sidJ int, m *msg.NewProxy) string {
	if sidL == sidJ {
		return "samesess" // one session handles its messages one at a time
	}
	cL, cJ := st.ctl(sidL), st.ctl(sidJ)
	mu := gpRoutersMutex(st.routers)
	gate := make(chan struct{})
	var once sync.Once
	verifhook.Set(func(point string, keys []string) {
		if point == "httpgroup.register.lookedup" && len(keys) > 0 && keys[0] == m.ProxyName {
			once.Do(func() { close(gate) })
		}
	})
	defer verifhook.Set(nil)

	mu.RLock()
	held := true
	release := func() {
		if held {
			held = false
			mu.RUnlock()
		}
	}
	defer release()
	lDone := make(chan struct{})
	go func() {
		defer close(lDone)
		defer func() { _ = recover() }()
		_ = cL.CloseProxy(&msg.CloseProxy{ProxyName: leaver})
	}()
	// until the close is parked at the route table's write lock (a pending writer refuses new readers) or done
	deadline := time.Now().Add(2 * time.Second)
parked:
	for time.Now().Before(deadline) {
		select {
		case <-lDone:
			break parked
		default:
		}
		if !mu.TryRLock() {
			break parked
		}
		mu.RUnlock()
		time.Sleep(20 * time.Microsecond)
	}
	jDone := make(chan string, 1)
	go func() {
		defer func() {
			if r := recover(); r != nil {
				jDone <- "PANIC:" + hx(fmt.Sprint(r))
			}
		}()
		_, err := cJ.RegisterProxy(m)
		jDone <- gpClassify(err)
	}()
	res := ""
	select {
	case res = <-jDone:
	case <-gate: // the registration is inside the group controller while the close is still held
	case <-time.After(10 * time.Millisecond):
	}
	release()
	if res == "" {
		select {
		case res = <-jDone:
		case <-time.After(3 * time.Second):
			return "timeout"
		}
	}
	select {
	case <-lDone:
	case <-time.After(3 * time.Second):
		return "timeout"
	}
	return res
}

// gpExec bounds every op: a call into frp that does not return within 5 s (a lock never released on a
// changed tree) answers "timeout"; the world is then abandoned (not closed: closing would wait for the
// same lock) and every op up to the next reset answers "poisoned".
var gpPoisoned bool

func gpExec(tok []string) string {
	if tok[0] == "reset" {
		if gpPoisoned {
			relSt, gpPoisoned = nil, false
			verifhook.Set(nil)
		}
		relResetSub(gpSubHost)
		return "-"
	}
	if gpPoisoned {
		return "poisoned"
	}
	ch := make(chan string, 1)
	go func() {
		defer func() {
			if r := recover(); r != nil {
				ch <- "PANIC:" + hx(fmt.Sprint(r))
			}
		}()
		ch <- gpExecOp(tok)
	}()
	select {
	case r := <-ch:
		if r == "timeout" {
			gpPoisoned = true
		}
		return r
	case <-time.After(5 * time.Second):
		gpPoisoned = true
		return "timeout"
	}
}

func gpExecOp(tok []string) string {
	if relSt == nil {
		relResetSub(gpSubHost) // a trace without a leading reset starts in the initial state
	}
	st := relSt
	switch tok[0] {
	case "reg":
		_, err := st.ctl(atoi(tok[1])).RegisterProxy(gpMsg(tok[2:]))
		return gpClassify(err)
	case "close":
		_ = st.ctl(atoi(tok[1])).CloseProxy(&msg.CloseProxy{ProxyName: tok[2]})
		return "-"
	case "endsess":
		sid := atoi(tok[1])
		if c, ok := st.ctls[sid]; ok {
			c.Close()
			done := make(chan struct{})
			go func() { c.WaitClosed(); close(done) }()
			select {
			case <-done:
			case <-time.After(3 * time.Second):
				return "timeout"
			}
			delete(st.ctls, sid)
		}
		return "-"
	case "race":
		return gpRace(st, atoi(tok[1]), tok[2], atoi(tok[3]), gpMsg(tok[4:]))
	case "view":
		return gpView(st)
	}
	return "bad-op"
}

// ---------------------------------------------------------------- generator

type gpCfg struct {
	name       string
	doms       []string
	sub        string
	locs       []string
	user       string
	group, key string
}

func gpCSV(xs []string) string {
	if len(xs) == 0 {
		return "-"
	}
	out := []string{}
	for _, x := range xs {
		out = append(out, hx(x))
	}
	return strings.Join(out, ",")
}

func (c gpCfg) args() string {
	return fmt.Sprintf("%s %s %s %s %s %s %s", c.name, gpCSV(c.doms), hx(c.sub), gpCSV(c.locs), hx(c.user), hx(c.group), hx(c.key))
}

func (c gpCfg) clone() gpCfg {
	c.doms = append([]string{}, c.doms...)
	c.locs = append([]string{}, c.locs...)
	return c
}

type gpLive struct {
	sid int
	cfg gpCfg
}

func gpGen(rng *rand.Rand, n int, emit func(string)) {
	doms := []string{"a.example.com", "b.example.com", "A.Example.com", "c.org"}
	locs := []string{"", "/", "/a"}
	users := []string{"", "", "alice"}
	groups := []string{"g1", "g2", "G1"}
	keys := []string{"k1", "k1", "k2", ""}
	id := 0
	live := map[string]gpLive{}
	var closed []gpLive // registrations whose proxy was closed / whose session ended: re-submitted verbatim later
	emit("reset")
	liveNames := func() []string {
		ns := []string{}
		for nm := range live {
			ns = append(ns, nm)
		}
		sort.Strings(ns)
		return ns
	}
	fresh := func() string { id++; return fmt.Sprintf("p%d", id) }
	random := func() gpCfg {
		c := gpCfg{name: fresh(), user: pick(rng, users)}
		grouped := rng.Intn(10) < 6
		nd, nl := 1, rng.Intn(2)
		if !grouped || rng.Intn(6) == 0 {
			nd, nl = rng.Intn(3), rng.Intn(3)
		}
		for i := 0; i < nd; i++ {
			c.doms = append(c.doms, pick(rng, doms))
		}
		for i := 0; i < nl; i++ {
			c.locs = append(c.locs, pick(rng, locs))
		}
		if (nd == 0 && rng.Intn(8) != 0) || rng.Intn(12) == 0 {
			c.sub = pick(rng, []string{"t", "T", "u"})
		}
		if grouped {
			c.group, c.key = pick(rng, groups), pick(rng, keys)
		}
		return c
	}
	// a registration that has to do with a live proxy: the legitimate fellow member, or one that differs in
	// exactly one respect (every kind of refused join), or the plain proxy / other group wanting the same route
	related := func(base gpCfg) gpCfg {
		c := base.clone()
		c.name = fresh()
		switch rng.Intn(15) {
		case 0, 1, 2: // identical parameters
		case 3, 12, 13, 14: // wrong key
			c.key = pick(rng, []string{"k1", "k2", "", "K1"})
		case 4:
			if len(c.doms) > 0 {
				c.doms[0] = pick(rng, doms) // other domain or other spelling of the same one
			} else {
				c.doms = []string{pick(rng, doms)}
			}
		case 5:
			c.locs = []string{pick(rng, locs)}
		case 6:
			c.user = pick(rng, []string{"", "alice", "bob"})
		case 7:
			c.doms = append(c.doms, pick(rng, doms)) // second route of a grouped proxy: refused after the first was accepted
		case 8:
			c.locs = append(c.locs, pick(rng, locs))
			if len(c.locs) == 1 {
				c.locs = append(c.locs, pick(rng, locs))
			}
		case 9:
			c.sub = "t"
		case 10:
			c.group, c.key = pick(rng, append([]string{""}, groups...)), pick(rng, keys) // same route, other group / no group
		case 11:
			c.name = base.name // name taken
		}
		return c
	}
	pickLive := func(preferGrouped bool) (gpLive, bool) {
		ns := liveNames()
		if len(ns) == 0 {
			return gpLive{}, false
		}
		if preferGrouped {
			gs := []string{}
			for _, nm := range ns {
				if live[nm].cfg.group != "" {
					gs = append(gs, nm)
				}
			}
			if len(gs) > 0 {
				return live[pick(rng, gs)], true
			}
		}
		return live[pick(rng, ns)], true
	}
	forget := func(nm string) {
		closed = append(closed, live[nm])
		if len(closed) > 6 {
			closed = closed[1:]
		}
		delete(live, nm)
	}
	for i := 0; i < n; i++ {
		k := rng.Intn(100)
		switch {
		case k < 2:
			emit("reset")
			live, closed = map[string]gpLive{}, nil
		case k < 44:
			var c gpCfg
			sid := 1 + rng.Intn(3)
			r := rng.Intn(10)
			switch {
			case r < 4:
				c = random()
			case r < 8:
				if b, ok := pickLive(rng.Intn(4) != 0); ok {
					c = related(b.cfg)
				} else {
					c = random()
				}
			default:
				if len(closed) > 0 {
					b := pick(rng, closed) // the identical registration, on the same or on another session
					c = b.cfg
					if rng.Intn(2) == 0 {
						sid = b.sid
					}
				} else {
					c = random()
				}
			}
			emit(fmt.Sprintf("reg %d %s", sid, c.args()))
			if _, ok := live[c.name]; !ok {
				live[c.name] = gpLive{sid, c} // maybe refused: then closing it is a no-op, which is fine
			}
		case k < 64:
			b, ok := pickLive(rng.Intn(2) == 0)
			if !ok {
				continue
			}
			sid := b.sid
			if rng.Intn(6) == 0 {
				sid = 1 + rng.Intn(3)
			}
			emit(fmt.Sprintf("close %d %s", sid, b.cfg.name))
			if sid == b.sid {
				forget(b.cfg.name)
			}
		case k < 70:
			sid := 1 + rng.Intn(3)
			emit(fmt.Sprintf("endsess %d", sid))
			for _, nm := range liveNames() {
				if live[nm].sid == sid {
					forget(nm)
				}
			}
		case k < 78:
			b, ok := pickLive(true)
			if !ok {
				continue
			}
			c := b.cfg.clone()
			c.name = fresh()
			if rng.Intn(4) == 0 {
				c = related(b.cfg)
			}
			sidJ := 1 + (b.sid+rng.Intn(2))%3
			emit(fmt.Sprintf("race %d %s %d %s", b.sid, b.cfg.name, sidJ, c.args()))
			forget(b.cfg.name)
			if _, ok := live[c.name]; !ok {
				live[c.name] = gpLive{sidJ, c}
			}
		default:
			emit("view")
		}
	}
	emit("view")
	emit("reset")
}

func init() { register(&Engine{Name: "grprel", Gen: gpGen, Exec: gpExec}) }
