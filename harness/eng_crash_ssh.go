// Engine "crash" (C16), the ssh tunnel gateway: hostile ssh clients against the child's frps.
//
// The child's frps listens with sshTunnelGateway enabled and NO authorizedKeysFile (gateway `a`: NoClientAuth, anybody who
// reaches the port is let in); a second small frps in the same child process has an authorizedKeysFile with one key
// (gateway `b`).  An op is ONE ssh connection (golang.org/x/crypto/ssh client) running a script:
//
//	ssh <a|b> <auth> <item>...                 auth: none | key (the authorized key) | badkey (a key nobody authorized)
//	                                                 | raw.<xHEX> (these bytes instead of an ssh handshake, then FIN)
//	  g.<xTYPE>.<0|1>.<xPAYLOAD>               global request (tcpip-forward, cancel-tcpip-forward, keepalive, unknown, …)
//	  c.<xTYPE>.<xEXTRA>                       open a channel of any type (session, direct-tcpip, unknown, …)
//	  r.<k>.<xTYPE>.<0|1>.<xPAYLOAD>           request on the k-th channel opened by this script (exec, shell, pty-req, …)
//	  w.<k>.<xDATA>                            data on the k-th channel
//	  k.<k>                                    close the k-th channel
//	  d                                        the client disconnects here (whatever follows is not sent)
//	                                           => s:<handshake>:<what the server said on the first channel>
//	sstorm <seed> <nconn> <nitems>             nconn such clients at once, scripts drawn in the child from the same class => done
//
// `@Pk@@` inside a payload is replaced by the five digits of the k-th port of the child's allowPorts window (same length:
// a length prefix computed by the generator stays right).  After the script every channel still open gets one request
// with WantReply (requests of a channel are handled in order: when it is answered everything before it was handled), the
// answer of the server on the first channel is awaited where one has to come, the client closes, and the op returns
// only when no goroutine of the process is inside TunnelServer.handleNewChannel any more (goroutine dump, bounded at 2 s):
// whatever a request of this op could do to frps has happened when the op answers.  Every wait is bounded (2 s).
package main

import (
	"bytes"
	"context"
	"crypto/ed25519"
	crand "crypto/rand"
	"crypto/x509"
	"encoding/binary"
	"encoding/pem"
	"fmt"
	"io"
	"math/rand"
	"net"
	"os"
	"path/filepath"
	"runtime"
	"strconv"
	"strings"
	"sync"
	"time"

	"golang.org/x/crypto/ssh"

	"github.com/fatedier/frp/client"
	v1 "github.com/fatedier/frp/pkg/config/v1"
	"github.com/fatedier/frp/server"
)

type crashSSH struct {
	dir         string
	hostKeyFile string
	akFile      string
	hostPub     ssh.PublicKey
	userKey     ssh.Signer // in gateway b's authorized_keys
	badKey      ssh.Signer // authorized nowhere
	portA       int
	portB       int
	bindB       int // the second frps' control port (eng_crash_limits.go)
	connB       client.Connector
	svrB        *server.Service
}

var crashSSHW *crashSSH

func crashSSHNewKey() (ed25519.PrivateKey, ssh.Signer) {
	_, p, err := ed25519.GenerateKey(crand.Reader)
	if err != nil {
		panic(err)
	}
	s, err := ssh.NewSignerFromKey(p)
	if err != nil {
		panic(err)
	}
	return p, s
}

// keys and files, once per child
func crashSSHPrepare() *crashSSH {
	d, err := os.MkdirTemp("", "c16ssh")
	if err != nil {
		panic(err)
	}
	s := &crashSSH{dir: d, hostKeyFile: filepath.Join(d, "host_key"), akFile: filepath.Join(d, "authorized_keys")}
	hp, hs := crashSSHNewKey()
	der, err := x509.MarshalPKCS8PrivateKey(hp)
	if err != nil {
		panic(err)
	}
	if err := os.WriteFile(s.hostKeyFile, pem.EncodeToMemory(&pem.Block{Type: "PRIVATE KEY", Bytes: der}), 0o600); err != nil {
		panic(err)
	}
	s.hostPub = hs.PublicKey()
	_, s.userKey = crashSSHNewKey()
	_, s.badKey = crashSSHNewKey()
	ak := strings.TrimSpace(string(ssh.MarshalAuthorizedKey(s.userKey.PublicKey()))) + " sshuser\n"
	if err := os.WriteFile(s.akFile, []byte(ak), 0o600); err != nil {
		panic(err)
	}
	return s
}

// gateway a: on the child's main frps (called from crashStart before server.NewService)
func (s *crashSSH) configureA(cfg *v1.ServerConfig) {
	cfg.SSHTunnelGateway.BindPort = freeTCPPort()
	cfg.SSHTunnelGateway.PrivateKeyFile = s.hostKeyFile
	cfg.SSHTunnelGateway.AuthorizedKeysFile = ""
	s.portA = cfg.SSHTunnelGateway.BindPort
}

// gateway b: a second frps in the same process, with an authorizedKeysFile (and maxPortsPerClient = 2: eng_crash_limits.go)
func (s *crashSSH) startB() {
	var err error
	for attempt := 0; attempt < 5; attempt++ {
		cfg := &v1.ServerConfig{}
		cfg.BindAddr = "127.0.0.1"
		cfg.ProxyBindAddr = "127.0.0.1"
		cfg.BindPort = freeTCPPort()
		cfg.Auth.Method = v1.AuthMethodToken
		cfg.Auth.Token = crashToken
		cfg.SSHTunnelGateway.BindPort = freeTCPPort()
		cfg.SSHTunnelGateway.PrivateKeyFile = s.hostKeyFile
		cfg.SSHTunnelGateway.AuthorizedKeysFile = s.akFile
		cfg.Transport.HeartbeatTimeout = 90
		cfg.UserConnTimeout = 2
		cfg.MaxPortsPerClient = crashLimMaxPorts // eng_crash_limits.go
		cfg.Complete()
		var svr *server.Service
		if svr, err = server.NewService(cfg); err != nil {
			continue
		}
		s.svrB, s.portB, s.bindB = svr, cfg.SSHTunnelGateway.BindPort, cfg.BindPort
		go svr.Run(context.Background())
		return
	}
	panic(fmt.Sprint("cannot start the second frps: ", err))
}

// ---------------------------------------------------------------- one client

type crashSSHChan struct {
	ch     ssh.Channel
	closed bool
}

const crashSSHWait = 2 * time.Second

// no goroutine of the process is inside handleNewChannel any more (the frame line, not a "created by" line)
func crashSSHQuiesce() bool {
	buf := make([]byte, 8<<20)
	dl := time.Now().Add(crashSSHWait)
	for {
		n := runtime.Stack(buf, true)
		if !bytes.Contains(buf[:n], []byte("ssh.(*TunnelServer).handleNewChannel(")) {
			return true
		}
		if time.Now().After(dl) {
			return false
		}
		time.Sleep(2 * time.Millisecond)
	}
}

func (w *crashWorld) sshSubst(p string) string {
	for k := 0; k < 10; k++ {
		p = strings.ReplaceAll(p, fmt.Sprintf("@P%d@@", k), fmt.Sprintf("%05d", w.allowLo+k))
	}
	return p
}

// runs one script; quiesce: wait for the gateway's goroutines of this connection before answering
func (w *crashWorld) sshClient(gw, auth string, items []string) string {
	s := crashSSHW
	port := s.portA
	if gw == "b" {
		port = s.portB
	}
	addr := "127.0.0.1:" + strconv.Itoa(port)
	tc, err := net.DialTimeout("tcp", addr, crashSSHWait)
	if err != nil {
		return "s:dialerr:-"
	}
	defer tc.Close()
	crashCount("sshConn")
	if strings.HasPrefix(auth, "raw.") {
		_ = tc.SetDeadline(time.Now().Add(300 * time.Millisecond))
		_, _ = tc.Write([]byte(unhx(auth[4:])))
		if t, ok := tc.(*net.TCPConn); ok {
			_ = t.CloseWrite()
		}
		_, _ = io.Copy(io.Discard, tc)
		return "s:raw:-"
	}
	var methods []ssh.AuthMethod
	switch auth {
	case "key":
		methods = []ssh.AuthMethod{ssh.PublicKeys(s.userKey)}
	case "badkey":
		methods = []ssh.AuthMethod{ssh.PublicKeys(s.badKey)}
	}
	conf := &ssh.ClientConfig{User: "v0", Auth: methods, HostKeyCallback: ssh.FixedHostKey(s.hostPub), Timeout: crashSSHWait}
	_ = tc.SetDeadline(time.Now().Add(crashSSHWait))
	cc, chans, reqs, err := ssh.NewClientConn(tc, addr, conf)
	if err != nil {
		return "s:authfail:-"
	}
	crashCount("sshOK")
	// the server's own patience with a connection that does not say what it wants is 3 s: the whole script stays below
	_ = tc.SetDeadline(time.Now().Add(2500 * time.Millisecond))
	defer cc.Close()
	go ssh.DiscardRequests(reqs)
	go func() {
		for nc := range chans {
			if nc.ChannelType() != "forwarded-tcpip" {
				_ = nc.Reject(ssh.UnknownChannelType, "no")
				continue
			}
			ch, rq, err := nc.Accept()
			if err != nil {
				continue
			}
			go ssh.DiscardRequests(rq)
			go func() { _, _ = io.Copy(ch, ch); ch.Close() }() // the "local service" of the tunnel: echo
		}
	}()
	closed := make(chan struct{})
	go func() { _ = cc.Wait(); close(closed) }()

	var (
		chs      []*crashSSHChan
		outMu    sync.Mutex
		out      []byte
		fwdGiven bool
		execSent bool
		tcpCmd   bool
	)
	disconnected := false
	for _, it := range items {
		if disconnected {
			break
		}
		f := strings.Split(it, ".")
		switch {
		case f[0] == "d":
			cc.Close()
			disconnected = true
		case f[0] == "g" && len(f) == 4:
			typ, pay := unhx(f[1]), []byte(unhx(f[3]))
			if typ == "tcpip-forward" {
				fwdGiven = true
			}
			crashCount("sshReq")
			if f[2] == "1" {
				// the gateway's request goroutine ends at the first forward request it cannot decode: a later
				// request with WantReply is then never answered on this connection — do not sit it out
				done := make(chan struct{})
				go func() { _, _, _ = cc.SendRequest(typ, true, pay); close(done) }()
				select {
				case <-done:
				case <-closed:
				case <-time.After(500 * time.Millisecond):
				}
			} else {
				_, _, _ = cc.SendRequest(typ, false, pay)
			}
		case f[0] == "c" && len(f) == 3:
			// x/crypto/ssh: an OpenChannel that starts after the mux loop has ended (the gateway hung up first — its
			// patience is 3 s, a loaded machine gets there) registers a channel nobody will ever close and waits on it
			// for ever; the socket deadline does not reach it. The wait is ours to bound (seen as `hang` of the child,
			// goroutine dump: mux.openChannel, chan receive — a client-library race, not frps).
			type ocRes struct {
				ch  ssh.Channel
				rq  <-chan *ssh.Request
				err error
			}
			ocCh := make(chan ocRes, 1)
			go func(typ string, pay []byte) {
				ch, rq, err := cc.OpenChannel(typ, pay)
				ocCh <- ocRes{ch, rq, err}
			}(unhx(f[1]), []byte(unhx(f[2])))
			var ch ssh.Channel
			var rq <-chan *ssh.Request
			var err error
			select {
			case r := <-ocCh:
				ch, rq, err = r.ch, r.rq, r.err
			case <-closed:
				err = io.ErrClosedPipe
			case <-time.After(crashSSHWait):
				err = os.ErrDeadlineExceeded
			}
			if err != nil {
				chs = append(chs, &crashSSHChan{closed: true})
				continue
			}
			go ssh.DiscardRequests(rq)
			first := len(chs) == 0
			go func() {
				buf := make([]byte, 4096)
				for {
					n, err := ch.Read(buf)
					if first && n > 0 {
						outMu.Lock()
						if len(out) < 1<<16 {
							out = append(out, buf[:n]...)
						}
						outMu.Unlock()
					}
					if err != nil {
						return
					}
				}
			}()
			chs = append(chs, &crashSSHChan{ch: ch})
		case f[0] == "r" && len(f) == 5:
			k := atoi(f[1])
			if k < 0 || k >= len(chs) || chs[k].closed {
				continue
			}
			typ, pay := unhx(f[2]), w.sshSubst(unhx(f[4]))
			if typ == "exec" && len(pay) > 4 {
				execSent = true
				if strings.HasPrefix(pay[4:], "tcp ") {
					tcpCmd = true
				}
			}
			crashCount("sshReq")
			_, _ = chs[k].ch.SendRequest(typ, f[3] == "1", []byte(pay))
		case f[0] == "w" && len(f) == 3:
			k := atoi(f[1])
			if k < 0 || k >= len(chs) || chs[k].closed {
				continue
			}
			_, _ = chs[k].ch.Write([]byte(unhx(f[2])))
		case f[0] == "k" && len(f) == 2:
			k := atoi(f[1])
			if k < 0 || k >= len(chs) || chs[k].closed {
				continue
			}
			chs[k].closed = true
			_ = chs[k].ch.Close()
		}
	}
	cls := "-"
	if !disconnected {
		// everything sent on a channel has been handled once a later request on it is answered
		for _, c := range chs {
			if !c.closed {
				_, _ = c.ch.SendRequest("verif-sync", true, nil)
			}
		}
		text := func() string { outMu.Lock(); defer outMu.Unlock(); return string(out) }
		isClosed := func() bool {
			select {
			case <-closed:
				return true
			default:
				return false
			}
		}
		if fwdGiven && execSent && len(chs) > 0 {
			// the gateway may have both halves: it answers on the first channel (usage, an error, the success banner) or closes
			dl := time.Now().Add(1500 * time.Millisecond)
			for time.Now().Before(dl) && !isClosed() && !strings.Contains(text(), "RemoteAddress:") {
				time.Sleep(2 * time.Millisecond)
			}
			if isClosed() {
				time.Sleep(5 * time.Millisecond) // what was written before the close
			}
		}
		t := text()
		switch {
		case strings.Contains(t, "frp (via SSH)"):
			cls = "up"
			crashCount("sshUp")
			if i := strings.Index(t, "RemoteAddress:"); i >= 0 && tcpCmd {
				line := t[i:]
				if j := strings.Index(line, "\n"); j >= 0 {
					line = line[:j]
				}
				line = strings.TrimSpace(line)
				cls = "up0"
				if j := strings.LastIndex(line, ":"); j >= 0 {
					// a user of the tunnel: frps → work connection of the virtual client → forwarded-tcpip channel → echo
					if uc, err := net.DialTimeout("tcp", "127.0.0.1:"+line[j+1:], time.Second); err == nil {
						_ = uc.SetDeadline(time.Now().Add(crashSSHWait))
						want := []byte("c16-ssh-user\n")
						if _, err := uc.Write(want); err == nil {
							got := make([]byte, len(want))
							if _, err := io.ReadFull(uc, got); err == nil && bytes.Equal(got, want) {
								cls = "up1"
								crashCount("sshEcho")
							}
						}
						uc.Close()
					}
				}
			}
		case strings.Contains(t, "Usage"):
			cls = "help"
			crashCount("sshHelp")
		case t != "":
			cls = "err"
			crashCount("sshErr")
		case isClosed():
			cls = "closed"
		default:
			cls = "open"
		}
	}
	cc.Close()
	tc.Close()
	return "s:ok:" + cls
}

func (w *crashWorld) sshOp(gw, auth string, items []string) string {
	r := w.sshClient(gw, auth, items)
	if !crashSSHQuiesce() {
		return "fail:ssh-handler-stuck"
	}
	return r
}

func (w *crashWorld) sstorm(seed int64, nconn, nitems int) string {
	var wg sync.WaitGroup
	for i := 0; i < nconn; i++ {
		wg.Add(1)
		go func(i int) {
			defer wg.Done()
			r := rand.New(rand.NewSource(seed*131 + int64(i)))
			for round := 0; round < 3; round++ {
				gw, auth, items := crashSSHScript(r, nitems)
				_ = w.sshClient(gw, auth, items)
			}
		}(i)
	}
	wg.Wait()
	if !crashSSHQuiesce() {
		return "fail:ssh-handler-stuck"
	}
	return "done"
}

// ---------------------------------------------------------------- the class of scripts (generator, parent and child side)

func crashSSHStr(s string) []byte {
	b := make([]byte, 4+len(s))
	binary.BigEndian.PutUint32(b, uint32(len(s)))
	copy(b[4:], s)
	return b
}

// what `ssh -R … v0@host <command>` would carry, and what it would not
func crashSSHCmd(r *rand.Rand) string {
	port := fmt.Sprintf("@P%d@@", r.Intn(10))
	name := pick(r, []string{"", "", " --proxy_name sshp" + strconv.Itoa(r.Intn(4)), " --proxy_name c16watch", " --proxy_name " + strings.Repeat("n", 300)})
	tok := pick(r, []string{" --token " + crashToken, " --token " + crashToken, "", " --token wrong"})
	user := pick(r, []string{"", "", " --user u" + strconv.Itoa(r.Intn(3))})
	switch r.Intn(23) {
	case 0, 1, 2, 3:
		return "tcp --remote_port " + port + name + tok + user
	case 4:
		return "tcp --remote_port " + pick(r, []string{"0", "1", "70000", "-1", "notanumber", "99999999999999999999", ""}) + name + tok
	case 5:
		return "http --custom_domain " + pick(r, []string{"sshh.c16.test", "web.c16.test", "x", "*.c16.test", ""}) + name + tok + user
	case 6:
		return "https --custom_domain sshs" + strconv.Itoa(r.Intn(3)) + ".c16.test" + name + tok
	case 7:
		return "tcpmux --mux httpconnect --custom_domain sshm" + strconv.Itoa(r.Intn(3)) + ".c16.test" + name + tok
	case 8:
		return "stcp --sk k" + name + tok + pick(r, []string{"", " --allow_users *"})
	case 9:
		return pick(r, []string{"udp", "xtcp", "sudp", "TCP", "tcp\t", "tcpx"}) + " --remote_port " + port + tok
	case 10:
		return pick(r, []string{"tcp --help", "--help", "tcp -h", "help", "http --help", "tcp --remote_port " + port + " --help"})
	case 11:
		return "tcp --no_such_flag 1" + tok
	case 12:
		return pick(r, []string{"", "-", "--", "tcp", "tcp ", " tcp --remote_port " + port})
	case 21:
		return pick(r, []string{" ", "  ", "\n", "\t", " \t "}) // blanks only
	case 13:
		return "tcp  --remote_port  " + port + "  " + tok // empty arguments between the blanks
	case 14:
		return "tcp --remote_port " + port + tok + " --sk " + strings.Repeat("k", 2000+r.Intn(6000))
	case 15:
		return "tcp --remote_port " + port + " --proxy_name \xff\xfe\x80bad-utf8\xc3" + tok
	case 16:
		return "tcp\x00--remote_port\x00" + port
	case 17:
		return "http --custom_domain d.c16.test --locations /a,/b --http_user u --http_pwd p --host_header_rewrite h" + tok
	case 18:
		return "tcp --remote_port " + port + " --bandwidth_limit " + pick(r, []string{"1MB", "0", "x", "-1KB"}) + " --bandwidth_limit_mode " + pick(r, []string{"client", "server", "z"}) + tok
	case 19:
		return "tcp --remote_port " + port + " --ue --uc" + tok
	case 20:
		return "tcp --remote_port=" + port + " -n sshq" + tok
	}
	b := make([]byte, 1+r.Intn(40))
	r.Read(b)
	return string(b)
}

// the payload of a channel request as a CLASS: everything around the `uint32 length ‖ string` framing of "exec"
func crashSSHPayload(r *rand.Rand) []byte {
	body := crashSSHCmd(r)
	pre := func(n uint32, b string) []byte {
		o := make([]byte, 4+len(b))
		binary.BigEndian.PutUint32(o, n)
		copy(o[4:], b)
		return o
	}
	switch r.Intn(20) {
	case 0:
		return nil
	case 1:
		return pre(0, "")[:1+r.Intn(3)] // shorter than the length field
	case 2:
		return pre(uint32(r.Intn(9)), "") // the length field alone
	case 3, 4, 5, 6, 7, 8:
		return pre(uint32(len(body)), body) // exact
	case 9:
		if len(body) == 0 {
			body = "tcp"
		}
		return pre(uint32(r.Intn(len(body))), body) // prefix smaller than what follows (0 included)
	case 10:
		return pre(uint32(len(body)+1+r.Intn(3)), body) // prefix larger: just
	case 11:
		return pre(uint32(len(body))+uint32(r.Intn(1<<24))<<uint(r.Intn(8)), body) // prefix larger: far
	case 12:
		return pre(pick(r, []uint32{0x7FFFFFFF, 0x80000000, 0x7FFFFFFB, 0x7FFFFFFC, 0x80000004, 0xFFFFFFFB, 0xFFFFFFFA, 0xFFFF0000}), body)
	case 13:
		return pre(0xFFFFFFFC+uint32(r.Intn(4)), body) // 4 + prefix wraps around in uint32
	case 14:
		return pre(0xFFFFFFF0+uint32(r.Intn(16)), pick(r, []string{"x", body}))
	case 15:
		long := body + " --sk " + strings.Repeat("v", 8000+r.Intn(24000))
		return pre(uint32(len(long)), long) // very long
	case 16:
		b := make([]byte, 5+r.Intn(60))
		r.Read(b) // not UTF-8, any prefix
		return b
	case 17:
		b := make([]byte, 1+r.Intn(40))
		r.Read(b)
		return pre(uint32(len(b)), string(b)) // exact, not UTF-8
	case 18:
		return crashSSHStr(body)[:4+len(body)/2] // truncated
	}
	return append(crashSSHStr(body), crashSSHStr("trailing")...)
}

func crashSSHForward(r *rand.Rand) []byte {
	host := pick(r, []string{"", "0.0.0.0", "localhost", "127.0.0.1", "::", strings.Repeat("h", 300), "\xff\x00"})
	port := pick(r, []uint32{80, 0, 65535, 65536, 0xFFFFFFFF, 8080})
	ok := append(crashSSHStr(host), 0, 0, 0, 0)
	binary.BigEndian.PutUint32(ok[len(ok)-4:], port)
	switch r.Intn(12) {
	case 0:
		return nil
	case 1:
		return ok[:r.Intn(len(ok))] // truncated anywhere
	case 2:
		return append(ok, byte(r.Intn(256))) // trailing byte
	case 3:
		b := append([]byte{}, ok...)
		binary.BigEndian.PutUint32(b, pick(r, []uint32{0xFFFFFFFF, 0xFFFFFFFC, 0x80000000, 0x7FFFFFFF, uint32(len(host) + 1), uint32(len(host) + 5)}))
		return b // the string's length field lies
	case 4:
		b := make([]byte, r.Intn(24))
		r.Read(b)
		return b
	}
	return ok
}

var (
	crashSSHGlobals  = []string{"tcpip-forward", "tcpip-forward", "tcpip-forward", "cancel-tcpip-forward", "keepalive@openssh.com", "no-more-sessions@openssh.com", "hostkeys-00@openssh.com", "", "TCPIP-FORWARD", "verif-unknown"}
	crashSSHChanTyps = []string{"session", "session", "session", "direct-tcpip", "forwarded-tcpip", "x11", "direct-streamlocal@openssh.com", "", "verif-unknown", "SESSION"}
	crashSSHReqTyps  = []string{"exec", "exec", "exec", "exec", "exec", "shell", "pty-req", "env", "subsystem", "window-change", "signal", "exit-status", "", "EXEC", "exec\x00", "verif-unknown"}
)

func crashSSHName(r *rand.Rand, xs []string) string {
	if r.Intn(12) == 0 {
		b := make([]byte, r.Intn(70))
		r.Read(b)
		return string(b)
	}
	return pick(r, xs)
}

// a script: a few channels, global requests and channel requests in any order, early disconnects at every stage
func crashSSHScript(r *rand.Rand, nitems int) (gw, auth string, items []string) {
	gw = pick(r, []string{"a", "a", "b"})
	if gw == "a" {
		auth = pick(r, []string{"none", "none", "none", "key", "badkey"})
	} else {
		auth = pick(r, []string{"key", "key", "key", "key", "none", "badkey"})
	}
	if r.Intn(16) == 0 {
		raw := pick(r, []string{"", "SSH-2.0-x\r\n", "SSH-2.0-x", "SSH-1.5-old\r\n", "GET / HTTP/1.1\r\n\r\n", "SSH-2.0-x\r\n\x00\x00\x00\x0c\x0a\x14", strings.Repeat("A", 300) + "\r\n"})
		if r.Intn(3) == 0 {
			b := make([]byte, r.Intn(200))
			r.Read(b)
			raw += string(b)
		}
		return gw, "raw." + hx(raw), nil
	}
	nch := 0
	if nitems < 1 {
		nitems = 1
	}
	n := 1 + r.Intn(nitems)
	wellFormed := r.Intn(3) == 0 // like `ssh -R`: forward, session, exec — then the rest
	if wellFormed {
		items = append(items, fmt.Sprintf("g.%s.1.%s", hx("tcpip-forward"), hx(string(append(crashSSHStr("0.0.0.0"), 0, 0, 0, 80)))))
		items = append(items, fmt.Sprintf("c.%s.%s", hx("session"), hx("")))
		nch = 1
		b := crashSSHCmd(r)
		items = append(items, fmt.Sprintf("r.0.%s.%d.%s", hx("exec"), r.Intn(2), hx(string(crashSSHStr(b)))))
		o := pick(r, [][]int{{0, 1, 2}, {0, 1, 2}, {1, 0, 2}, {1, 2, 0}}) // the request needs its channel; otherwise any order
		items = []string{items[o[0]], items[o[1]], items[o[2]]}
	}
	for i := 0; i < n; i++ {
		switch x := r.Intn(20); {
		case x < 3 || nch == 0 && x < 9:
			extra := ""
			if r.Intn(3) == 0 {
				b := make([]byte, r.Intn(40))
				r.Read(b)
				extra = string(b)
			}
			items = append(items, fmt.Sprintf("c.%s.%s", hx(crashSSHName(r, crashSSHChanTyps)), hx(extra)))
			nch++
		case x < 6:
			typ := crashSSHName(r, crashSSHGlobals)
			pay := crashSSHForward(r)
			items = append(items, fmt.Sprintf("g.%s.%d.%s", hx(typ), r.Intn(2), hx(string(pay))))
		case x < 16:
			if nch == 0 {
				continue
			}
			typ := crashSSHName(r, crashSSHReqTyps)
			items = append(items, fmt.Sprintf("r.%d.%s.%d.%s", r.Intn(nch), hx(typ), r.Intn(2), hx(string(crashSSHPayload(r)))))
		case x < 17:
			if nch == 0 {
				continue
			}
			b := make([]byte, r.Intn(300))
			r.Read(b)
			items = append(items, fmt.Sprintf("w.%d.%s", r.Intn(nch), hx(string(b))))
		case x < 18:
			if nch == 0 {
				continue
			}
			items = append(items, fmt.Sprintf("k.%d", r.Intn(nch)))
		default:
			if r.Intn(3) == 0 {
				items = append(items, "d")
			}
		}
	}
	if r.Intn(10) == 0 {
		// leave right after the handshake / after the first item
		items = append(items[:min(len(items), r.Intn(2))], "d")
	}
	return gw, auth, items
}

func crashSSHLine(gw, auth string, items []string) string {
	return strings.TrimSpace("ssh " + gw + " " + auth + " " + strings.Join(items, " "))
}

// the ssh block of the generated sequence
func crashGenSSH(rng *rand.Rand, emit func(string)) {
	execReq := func(gw, auth string, pay []byte, reply int) {
		emit(crashSSHLine(gw, auth, []string{fmt.Sprintf("c.%s.%s", hx("session"), hx("")), fmt.Sprintf("r.0.%s.%d.%s", hx("exec"), reply, hx(string(pay)))}))
	}
	pre := func(n uint32, b string) []byte {
		o := make([]byte, 4+len(b))
		binary.BigEndian.PutUint32(o, n)
		copy(o[4:], b)
		return o
	}
	// the boundaries of the length prefix, one request each, both gateways
	for _, n := range []uint32{0, 3, 4, 5, 0x7FFFFFFB, 0x7FFFFFFC, 0x7FFFFFFF, 0x80000000, 0xFFFFFFFA, 0xFFFFFFFB, 0xFFFFFFFC, 0xFFFFFFFD, 0xFFFFFFFE, 0xFFFFFFFF} {
		gw, auth := "a", "none"
		if rng.Intn(3) == 0 {
			gw, auth = "b", "key"
		}
		execReq(gw, auth, pre(n, "tcp "), rng.Intn(2))
	}
	execReq("a", "none", pre(0xFFFFFFFC, ""), 1) // four bytes only: `len(req.Payload) <= 4` leaves first
	execReq("b", "badkey", pre(0xFFFFFFFC, "x"), 1)
	execReq("b", "none", pre(0xFFFFFFFC, "x"), 1)
	emit("watch")
	// a complete `ssh -R` for every supported type on both gateways (b needs no token: the ssh key is the credential)
	for i, cmd := range []string{"tcp --remote_port @P3@@ --token " + crashToken, "tcp --remote_port 0", "stcp --sk k --token " + crashToken, "http --custom_domain sshx.c16.test --token " + crashToken,
		"tcp --remote_port @P3@@", "tcp --help", "tcp --no_such_flag 1", "udp --remote_port 0",
		" ", "\t", "tcp", "-", "tcp  ", " tcp"} { // degenerate command lines: blanks only, one word, leading / trailing blanks
		gw, auth := "a", "none"
		if i == 1 {
			gw, auth = "b", "key"
		}
		emit(crashSSHLine(gw, auth, []string{fmt.Sprintf("g.%s.1.%s", hx("tcpip-forward"), hx(string(append(crashSSHStr("0.0.0.0"), 0, 0, 0, 80)))),
			fmt.Sprintf("c.%s.%s", hx("session"), hx("")), fmt.Sprintf("r.0.%s.1.%s", hx("exec"), hx(string(crashSSHStr(cmd))))}))
	}
	for i := 0; i < 26; i++ {
		gw, auth, items := crashSSHScript(rng, 8)
		emit(crashSSHLine(gw, auth, items))
	}
	emit(fmt.Sprintf("sstorm %d 6 6", rng.Intn(1<<20)))
	emit("stat")
	emit("watch")
}
