package main

import (
	"bytes"
	"context"
	"encoding/json"
	"errors"
	"fmt"
	"io"
	"math/rand"
	"net"
	"net/http"
	"os"
	"path/filepath"
	"reflect"
	"runtime"
	"sort"
	"strings"
	"sync"
	"sync/atomic"
	"time"
	"unsafe"

	"github.com/fatedier/frp/client"
	"github.com/fatedier/frp/client/proxy"
	"github.com/fatedier/frp/pkg/config"
	v1 "github.com/fatedier/frp/pkg/config/v1"
	"github.com/fatedier/frp/pkg/msg"
	frplog "github.com/fatedier/frp/pkg/util/log"
	netpkg "github.com/fatedier/frp/pkg/util/net"
	"github.com/fatedier/frp/pkg/util/version"
	golog "github.com/fatedier/golib/log"
)

// Engine "svc" (C19, reload + reconnect at the level of client.Service): the real client.Service
// (login loop, keepControllerWorking, Control, proxy.Manager, Wrappers, message dispatcher) with
//
//   - its admin API as the only way configuration gets in: the initial configuration is a file read
//     by config.LoadClientConfig, a reload is PUT /api/config + GET /api/reload, the status is
//     GET /api/status, the end is POST /api/stop;
//
//   - an in-process scripted server behind ServiceOptions.ConnectorCreator: every Connect() of the
//     client arrives at the harness, which accepts it (net.Pipe, real login exchange, real
//     encrypted message stream, NewProxy answered with NewProxyResp), refuses it, or lets it hang
//     until the harness decides - so "the server is unreachable" lasts exactly as long as the op
//     sequence says and no op waits for a timer, except a refused login (the client's own back-off,
//     ~2 s; the generator spends few of them).
//
//     start <name:variant|v<name>:<key>>*   => <load>;ev=…;st=…;vp=…      new Service from a configuration file
//     reload <name:variant|v<name>:<key>>*  => <http code>;ev=…;st=…;vp=… PUT /api/config, GET /api/reload
//     badreload                        => <http code>;ev=…;st=…;vp=…   PUT of a file that does not parse, GET /api/reload
//     cut up|hang|refuse               => ev=…;st=…             the server drops the session; what the next dial meets
//     up                               => ev=…;st=…             the server is reachable again (a hanging dial completes)
//     refuse                           => ev=…;st=…             a hanging dial fails; later dials are refused
//     getcfg                           => same|differs|<code>   GET /api/config against the last PUT body
//     stop                             => ev=…;st=…             POST /api/stop
//
//     ev = <session>:<events>|…  events on that session since the previous op, sorted: C<name>, N<name>@<variant>
//     (the variant whose NewProxy image the message carries, ? if none of the loaded ones), - if none
//     st = <name>:<phase>,… as GET /api/status reports it
//     vp = the visitor bind addresses (keys 1..3) that are taken right now; a token v<name>:<key> is an stcp visitor
//     that binds address <key> (the generator keeps names and addresses distinct within a list and only removes
//     visitors during an outage: what a dead control starts is closed at the swap and waits for the new
//     manager's next keep-alive pass, 10 s)
type svcSession struct {
	id        int
	srv       net.Conn
	alive     atomic.Bool
	written   atomic.Int64 // bytes the client has written (complete Write calls)
	consumed  atomic.Int64 // bytes the server has read
	procMark  atomic.Int64 // `consumed` when the last complete message had been recorded
	pending   atomic.Int64 // replies not yet taken by the client
	replies   chan msg.Message
	loggedIn  atomic.Bool
	closeOnce sync.Once
}

type svcHub struct {
	mu       sync.Mutex
	cond     *sync.Cond
	mode     string // up | hang | refuse (the next dial fails, the ones after it hang)
	dials    int
	sessions []*svcSession
	events   map[int][]string
	images   map[string][]svcImage // proxy name -> loaded configurations, most recent first
	stopped  bool
}

type svcImage struct {
	variant int
	m       *msg.NewProxy
}

// the client's end of a session: counts what the client has written
type svcClientConn struct {
	net.Conn
	s *svcSession
}

func (c *svcClientConn) Write(p []byte) (int, error) {
	n, err := c.Conn.Write(p)
	c.s.written.Add(int64(n))
	return n, err
}

type svcCountReader struct {
	net.Conn
	s *svcSession
}

func (c *svcCountReader) Read(p []byte) (int, error) {
	n, err := c.Conn.Read(p)
	c.s.consumed.Add(int64(n))
	return n, err
}

// One connector per login attempt (Service.login calls ConnectorCreator every time); the first
// Connect() on it is the control connection.  Later calls on the same connector are work
// connections / visitor connections of that session (e.g. some other program on this machine
// connecting to a visitor's bind port): the scripted server has no use for them.
type svcConnector struct {
	h    *svcHub
	used atomic.Bool
}

func (c *svcConnector) Open() error  { return nil }
func (c *svcConnector) Close() error { return nil }
func (c *svcConnector) Connect() (net.Conn, error) {
	if c.used.Swap(true) {
		return nil, errors.New("scripted server: no work connections")
	}
	h := c.h
	h.mu.Lock()
	h.dials++
	h.cond.Broadcast()
	for h.mode == "hang" && !h.stopped {
		h.cond.Wait()
	}
	if h.mode != "up" || h.stopped {
		// one refusal; the attempt after the client's back-off hangs again (a refusal at every attempt
		// would double the back-off each time)
		h.mode = "hang"
		h.mu.Unlock()
		return nil, errors.New("dial tcp: connection refused (scripted)")
	}
	a, b := net.Pipe()
	s := &svcSession{id: len(h.sessions) + 1, srv: b, replies: make(chan msg.Message, 256)}
	s.alive.Store(true)
	h.sessions = append(h.sessions, s)
	h.mu.Unlock()
	go h.serve(s)
	return &svcClientConn{Conn: a, s: s}, nil
}

const svcToken = "svc-token"

func (h *svcHub) record(s *svcSession, ev string) {
	h.mu.Lock()
	h.events[s.id] = append(h.events[s.id], ev)
	h.mu.Unlock()
}

func (h *svcHub) serve(s *svcSession) {
	defer s.alive.Store(false)
	rd := &svcCountReader{Conn: s.srv, s: s}
	_ = s.srv.SetReadDeadline(time.Now().Add(5 * time.Second))
	m, err := msg.ReadMsg(rd)
	if err != nil {
		return
	}
	_ = s.srv.SetReadDeadline(time.Time{})
	if _, ok := m.(*msg.Login); !ok {
		return
	}
	s.procMark.Store(s.consumed.Load())
	if msg.WriteMsg(s.srv, &msg.LoginResp{Version: version.Full(), RunID: "svcrun"}) != nil {
		return
	}
	rw, err := netpkg.NewCryptoReadWriter(rd, []byte(svcToken))
	if err != nil {
		return
	}
	s.loggedIn.Store(true)
	go func() {
		for r := range s.replies {
			_ = msg.WriteMsg(rw, r)
			s.pending.Add(-1)
		}
	}()
	defer close(s.replies)
	for {
		m, err := msg.ReadMsg(rw)
		if err != nil {
			return
		}
		switch x := m.(type) {
		case *msg.NewProxy:
			h.record(s, "N"+strings.TrimPrefix(x.ProxyName, "p")+"@"+h.variantOf(x))
			s.pending.Add(1)
			s.replies <- &msg.NewProxyResp{ProxyName: x.ProxyName, RemoteAddr: ":1"}
		case *msg.CloseProxy:
			h.record(s, "C"+strings.TrimPrefix(x.ProxyName, "p"))
		case *msg.Ping:
			s.pending.Add(1)
			s.replies <- &msg.Pong{}
		}
		s.procMark.Store(s.consumed.Load())
	}
}

func (h *svcHub) variantOf(x *msg.NewProxy) string {
	h.mu.Lock()
	defer h.mu.Unlock()
	for _, im := range h.images[x.ProxyName] {
		if reflect.DeepEqual(im.m, x) {
			return fmt.Sprint(im.variant)
		}
	}
	return "?"
}

// loaded notes the configurations of a (re)load: the NewProxy image of each, most recent first
func (h *svcHub) loaded(tokens []string) {
	h.mu.Lock()
	defer h.mu.Unlock()
	for _, t := range tokens {
		if strings.HasPrefix(t, "v") {
			continue
		}
		f := strings.Split(t, ":")
		name, v := "p"+f[0], atoi(f[1])
		m := &msg.NewProxy{}
		buildProxy(name, v).MarshalToMsg(m)
		l := h.images[name]
		for i, im := range l {
			if im.variant == v {
				l = append(l[:i:i], l[i+1:]...)
				break
			}
		}
		h.images[name] = append([]svcImage{{v, m}}, l...)
	}
}

type svcState struct {
	hub    *svcHub
	svc    *client.Service
	cancel context.CancelFunc
	done   chan struct{}
	dir    string
	path   string
	port   int
	body   []byte
	names  map[string]bool
	vports [4]int // visitor bind ports, keys 1..3
}

var svcSt *svcState

func svcFreePort() int {
	l, err := net.Listen("tcp", "127.0.0.1:0")
	if err != nil {
		panic(err)
	}
	defer l.Close()
	return l.Addr().(*net.TCPAddr).Port
}

// a tcp port outside the ephemeral range that can be bound on 127.0.0.1 right now
func svcVisitorPort(taken []int) int {
	for tries := 0; tries < 2000; tries++ {
		p := 24000 + vmgrPortRng.Intn(5900)
		dup := false
		for _, q := range taken {
			dup = dup || q == p
		}
		if dup {
			continue
		}
		if l, err := net.Listen("tcp", fmt.Sprintf("127.0.0.1:%d", p)); err == nil {
			l.Close()
			return p
		}
	}
	panic("no free visitor port")
}

// the configuration file: the common part and one entry per token
func (s *svcState) fileBody(tokens []string) []byte {
	// every entry spells out only what its token sets (eng_c19_load.go): localIP, bandwidthLimitMode,
	// a visitor's bindAddr … are filled in by the loader's Complete() at every reload
	proxies := []map[string]any{}
	visitors := []map[string]any{}
	for _, t := range tokens {
		f := strings.Split(t, ":")
		if strings.HasPrefix(t, "v") {
			c := &v1.STCPVisitorConfig{}
			c.Name, c.Type, c.ServerName, c.SecretKey = f[0], "stcp", "s1", "k"
			c.BindPort = s.vports[atoi(f[1])]
			visitors = append(visitors, c19Entry(c))
			continue
		}
		proxies = append(proxies, c19Entry(buildProxyRaw("p"+f[0], atoi(f[1]))))
	}
	doc := map[string]any{
		"serverAddr":    "127.0.0.1",
		"serverPort":    7000,
		"loginFailExit": false,
		"auth":          map[string]any{"token": svcToken},
		"webServer":     map[string]any{"addr": "127.0.0.1", "port": s.port},
		"proxies":       proxies,
		"visitors":      visitors,
	}
	b, err := json.Marshal(doc)
	if err != nil {
		panic(err)
	}
	return b
}

func (s *svcState) shutdown() {
	if s == nil {
		return
	}
	h := s.hub
	h.mu.Lock()
	h.stopped = true
	h.cond.Broadcast()
	sess := append([]*svcSession(nil), h.sessions...)
	h.mu.Unlock()
	if s.svc != nil {
		s.svc.Close()
		select {
		case <-s.done:
		case <-time.After(3 * time.Second):
		}
	}
	if s.cancel != nil {
		s.cancel()
	}
	for _, x := range sess {
		x.srv.Close()
	}
	if s.dir != "" {
		os.RemoveAll(s.dir)
	}
}

func svcCtl(svc *client.Service) unsafe.Pointer {
	v := reflect.ValueOf(svc).Elem()
	mu := v.FieldByName("ctlMu")
	rw := (*sync.RWMutex)(unsafe.Pointer(mu.UnsafeAddr()))
	rw.RLock()
	defer rw.RUnlock()
	return v.FieldByName("ctl").UnsafePointer()
}

func (s *svcState) api(method, path string, body []byte) (int, []byte) {
	req, err := http.NewRequest(method, fmt.Sprintf("http://127.0.0.1:%d%s", s.port, path), bytes.NewReader(body))
	if err != nil {
		return -1, nil
	}
	cl := &http.Client{Timeout: 5 * time.Second}
	resp, err := cl.Do(req)
	if err != nil {
		return -1, nil
	}
	defer resp.Body.Close()
	b, _ := io.ReadAll(resp.Body)
	return resp.StatusCode, b
}

func svcPhaseTok(p string) string {
	return phaseTok(p)
}

// status as GET /api/status reports it
func (s *svcState) status() string {
	code, b := s.api("GET", "/api/status", nil)
	if code != 200 {
		return fmt.Sprintf("http%d", code)
	}
	var res map[string][]client.ProxyStatusResp
	if json.Unmarshal(b, &res) != nil {
		return "badjson"
	}
	var out []string
	for _, l := range res {
		for _, p := range l {
			out = append(out, strings.TrimPrefix(p.Name, "p")+":"+svcPhaseTok(p.Status))
		}
	}
	sort.Strings(out)
	if len(out) == 0 {
		return "-"
	}
	return strings.Join(out, ",")
}

func svcStacksParked(frame string) bool {
	buf := make([]byte, 1<<20)
	n := runtime.Stack(buf, true)
	for n == len(buf) {
		buf = make([]byte, 2*len(buf))
		n = runtime.Stack(buf, true)
	}
	for _, g := range strings.Split(string(buf[:n]), "\n\n") {
		if !strings.Contains(g, frame) {
			continue
		}
		i, j := strings.Index(g, "["), strings.Index(g, "]")
		if i < 0 || j < i || !strings.HasPrefix(g[i+1:j], "select") {
			return false
		}
	}
	return true
}

// settle: every wrapper of the control the service points to has done its first iteration and, on a live
// session, has got its answer; the client's send loops are idle; the server has recorded every byte
// the client wrote; the client has taken every reply.
func (s *svcState) settle() bool {
	deadline := time.Now().Add(4 * time.Second)
	exp := s.svc.StatusExporter()
	for {
		ok := true
		h := s.hub
		h.mu.Lock()
		var live *svcSession
		if n := len(h.sessions); n > 0 && h.sessions[n-1].alive.Load() {
			live = h.sessions[n-1]
		}
		h.mu.Unlock()
		for name := range s.names {
			st, found := exp.GetProxyStatus(name)
			if !found {
				continue
			}
			if st.Phase == proxy.ProxyPhaseNew || (live != nil && st.Phase == proxy.ProxyPhaseWaitStart) {
				ok = false
			}
		}
		if ok && live != nil && (live.written.Load() != live.procMark.Load() || live.pending.Load() != 0) {
			ok = false
		}
		if ok && !(svcStacksParked("msg.(*Dispatcher).sendLoop") && svcStacksParked("proxy.(*Wrapper).checkWorker(")) {
			ok = false
		}
		if ok && live != nil && (live.written.Load() != live.procMark.Load() || live.pending.Load() != 0) {
			ok = false
		}
		if ok {
			return true
		}
		if time.Now().After(deadline) {
			return false
		}
		time.Sleep(100 * time.Microsecond)
	}
}

func (s *svcState) report(head string, settled bool) string {
	h := s.hub
	h.mu.Lock()
	var ids []int
	for id, ev := range h.events {
		if len(ev) > 0 {
			ids = append(ids, id)
		}
	}
	sort.Ints(ids)
	var parts []string
	for _, id := range ids {
		ev := h.events[id]
		sort.Strings(ev)
		parts = append(parts, fmt.Sprintf("%d:%s", id, strings.Join(ev, ",")))
	}
	h.events = map[int][]string{}
	h.mu.Unlock()
	ev := strings.Join(parts, "|")
	if ev == "" {
		ev = "-"
	}
	var vp []string
	for k := 1; k <= 3; k++ {
		if l, err := net.Listen("tcp", fmt.Sprintf("127.0.0.1:%d", s.vports[k])); err != nil {
			vp = append(vp, fmt.Sprint(k))
		} else {
			l.Close()
		}
	}
	out := "ev=" + ev + ";st=" + s.status() + ";vp=" + strings.Join(vp, ",")
	if head != "" {
		out = head + ";" + out
	}
	if !settled {
		out += "!UNSETTLED"
	}
	return out
}

// waitCtlChange: loginFunc has installed a new control
func (s *svcState) waitCtlChange(old unsafe.Pointer, d time.Duration) bool {
	deadline := time.Now().Add(d)
	for time.Now().Before(deadline) {
		if p := svcCtl(s.svc); p != nil && p != old {
			return true
		}
		time.Sleep(100 * time.Microsecond)
	}
	return false
}

func (s *svcState) waitDial(d0 int, d time.Duration) bool {
	deadline := time.Now().Add(d)
	h := s.hub
	for time.Now().Before(deadline) {
		h.mu.Lock()
		n := h.dials
		h.mu.Unlock()
		if n > d0 {
			return true
		}
		time.Sleep(100 * time.Microsecond)
	}
	return false
}

func svcExec(tok []string) string {
	quietOnce.Do(func() { frplog.Logger = frplog.Logger.WithOptions(golog.WithOutput(io.Discard)) })
	proxy.VerifSetTimings(time.Hour, time.Hour, time.Hour)
	switch tok[0] {
	case "reset":
		svcSt.shutdown()
		svcSt = nil
		return "-"
	case "start":
		svcSt.shutdown()
		h := &svcHub{mode: "up", events: map[int][]string{}, images: map[string][]svcImage{}}
		h.cond = sync.NewCond(&h.mu)
		s := &svcState{hub: h, names: map[string]bool{}, done: make(chan struct{})}
		svcSt = s
		dir, err := os.MkdirTemp("", "svc")
		if err != nil {
			return "infra-tmp"
		}
		s.dir, s.path, s.port = dir, filepath.Join(dir, "frpc.json"), svcFreePort()
		for k := 1; k <= 3; k++ {
			s.vports[k] = svcVisitorPort(s.vports[:k])
		}
		s.body = s.fileBody(tok[1:])
		if os.WriteFile(s.path, s.body, 0o600) != nil {
			return "infra-write"
		}
		for _, t := range tok[1:] {
			if !strings.HasPrefix(t, "v") {
				s.names["p"+strings.Split(t, ":")[0]] = true
			}
		}
		h.loaded(tok[1:])
		// what `frpc -c file` does
		common, pcs, vcs, _, err := config.LoadClientConfig(s.path, true)
		if err != nil {
			return "loaderr;" + hx(err.Error())
		}
		svc, err := client.NewService(client.ServiceOptions{
			Common: common, ProxyCfgs: pcs, VisitorCfgs: vcs, ConfigFilePath: s.path,
			ConnectorCreator: func(context.Context, *v1.ClientCommonConfig) client.Connector { return &svcConnector{h: h} },
		})
		if err != nil {
			return "newerr;" + hx(err.Error())
		}
		s.svc = svc
		ctx, cancel := context.WithCancel(context.Background())
		s.cancel = cancel
		go func() { _ = svc.Run(ctx); close(s.done) }()
		if !s.waitCtlChange(nil, 5*time.Second) {
			return s.report("ok", false)
		}
		// the admin server is started by Run() on another goroutine
		for i := 0; i < 2000; i++ {
			if c, _ := s.api("GET", "/healthz", nil); c == 200 {
				break
			}
			time.Sleep(time.Millisecond)
		}
		return s.report("ok", s.settle())
	}
	s := svcSt
	if s == nil || s.svc == nil {
		return "nosvc"
	}
	h := s.hub
	switch tok[0] {
	case "reload":
		body := s.fileBody(tok[1:])
		for _, t := range tok[1:] {
			if !strings.HasPrefix(t, "v") {
				s.names["p"+strings.Split(t, ":")[0]] = true
			}
		}
		h.loaded(tok[1:])
		if c, _ := s.api("PUT", "/api/config", body); c != 200 {
			return fmt.Sprintf("put%d", c)
		}
		s.body = body
		c, _ := s.api("GET", "/api/reload", nil)
		return s.report(fmt.Sprint(c), s.settle())
	case "badreload":
		body := []byte("{ \"proxies\": [ {")
		if c, _ := s.api("PUT", "/api/config", body); c != 200 {
			return fmt.Sprintf("put%d", c)
		}
		s.body = body
		c, _ := s.api("GET", "/api/reload", nil)
		return s.report(fmt.Sprint(c), s.settle())
	case "getcfg":
		c, b := s.api("GET", "/api/config", nil)
		if c != 200 {
			return fmt.Sprint(c)
		}
		if bytes.Equal(b, s.body) {
			return "same"
		}
		return "differs"
	case "cut":
		old := svcCtl(s.svc)
		h.mu.Lock()
		var live *svcSession
		if n := len(h.sessions); n > 0 && h.sessions[n-1].alive.Load() {
			live = h.sessions[n-1]
		}
		d0 := h.dials
		if live != nil {
			h.mode = tok[1]
		}
		h.mu.Unlock()
		if live == nil {
			return "nosession"
		}
		live.srv.Close()
		// the client notices, tears the control down and dials again (after the back-off of
		// keepControllerWorking from the second loss on)
		if !s.waitDial(d0, 8*time.Second) {
			return s.report("", false)
		}
		ok := true
		if tok[1] == "up" {
			ok = s.waitCtlChange(old, 5*time.Second)
		}
		return s.report("", ok && s.settle())
	case "up", "refuse":
		old := svcCtl(s.svc)
		h.mu.Lock()
		wasDown := h.mode != "up"
		h.mode = tok[0]
		h.cond.Broadcast()
		h.mu.Unlock()
		ok := true
		if tok[0] == "up" && wasDown {
			ok = s.waitCtlChange(old, 8*time.Second)
		}
		return s.report("", ok && s.settle())
	case "stop":
		c, _ := s.api("POST", "/api/stop", nil)
		select {
		case <-s.done:
		case <-time.After(3 * time.Second):
			return s.report(fmt.Sprint(c), false)
		}
		// Run() has returned: the control has been closed gracefully; wait until the server has seen the end
		deadline := time.Now().Add(3 * time.Second)
		for time.Now().Before(deadline) {
			h.mu.Lock()
			n := len(h.sessions)
			alive := n > 0 && h.sessions[n-1].alive.Load()
			h.mu.Unlock()
			if !alive {
				break
			}
			time.Sleep(200 * time.Microsecond)
		}
		r := s.report(fmt.Sprint(c), true)
		s.shutdown()
		svcSt = nil
		return r
	}
	return "badop"
}

// ---------------------------------------------------------------- generator

func svcGen(rng *rand.Rand, n int, emit func(string)) {
	type ent struct{ name, variant int }
	type vent struct{ name, key int }
	var cur []ent
	var curV []vent
	connected := true
	tok := func(l []ent) string {
		var sb strings.Builder
		for _, e := range l {
			fmt.Fprintf(&sb, " %d:%d", e.name, e.variant)
		}
		for _, v := range curV {
			fmt.Fprintf(&sb, " v%d:%d", v.name, v.key)
		}
		return sb.String()
	}
	// visitors: distinct names, distinct addresses; during an outage the list only shrinks
	mutateV := func() {
		switch r := rng.Intn(10); {
		case r < 3 && connected && len(curV) < 3: // add
			name, key := rng.Intn(4), 1+rng.Intn(3)
			for _, v := range curV {
				if v.name == name || v.key == key {
					return
				}
			}
			curV = append(curV, vent{name, key})
		case r < 5 && len(curV) > 0: // remove
			i := rng.Intn(len(curV))
			curV = append(curV[:i:i], curV[i+1:]...)
		case r < 6 && connected && len(curV) > 0: // change the bind address
			i, key := rng.Intn(len(curV)), 1+rng.Intn(3)
			for _, v := range curV {
				if v.key == key {
					return
				}
			}
			curV[i].key = key
		case r < 7:
			rng.Shuffle(len(curV), func(i, j int) { curV[i], curV[j] = curV[j], curV[i] })
		}
	}
	plain := func() int { return cfvBase + cfvRandom(rng, true) }
	freshList := func() []ent {
		var l []ent
		for k := rng.Intn(4); k > 0; k-- {
			l = append(l, ent{rng.Intn(5), plain()})
		}
		return l
	}
	mutate := func() []ent {
		mutateV()
		next := append([]ent(nil), cur...)
		for k := 1 + rng.Intn(2); k > 0; k-- {
			switch r := rng.Intn(12); {
			case r < 3:
				next = append(next, ent{rng.Intn(5), plain()})
			case r < 5:
				if len(next) > 0 {
					i := rng.Intn(len(next))
					next = append(next[:i:i], next[i+1:]...)
				}
			case r < 9: // exactly one field of one entry
				if len(next) > 0 {
					i := rng.Intn(len(next))
					next[i].variant = cfvBase + cfvChangeOne(rng, next[i].variant-cfvBase, true)
				}
			case r < 10:
				rng.Shuffle(len(next), func(i, j int) { next[i], next[j] = next[j], next[i] })
			case r < 11: // duplicate a name
				if len(next) > 0 {
					e := next[rng.Intn(len(next))]
					if rng.Intn(2) == 0 {
						e.variant = cfvBase + cfvChangeOne(rng, e.variant-cfvBase, true)
					}
					i := rng.Intn(len(next) + 1)
					next = append(next[:i:i], append([]ent{e}, next[i:]...)...)
				}
			default:
			}
		}
		return next
	}
	refuses := 1 + n/150 // each refused login costs the client's own back-off (about 2 s)
	i := 0
	for i < n {
		// one service life: start, a few reloads, at most three session losses
		cur, curV, connected = freshList(), nil, true
		for k := rng.Intn(3); k > 0; k-- {
			mutateV()
		}
		emit("start" + tok(cur))
		i++
		cuts := 0
		for steps := 3 + rng.Intn(9); steps > 0 && i < n; steps-- {
			i++
			switch r := rng.Intn(100); {
			case r < 45:
				cur = mutate()
				emit("reload" + tok(cur))
			case r < 50:
				emit("reload" + tok(cur)) // the loaded configuration again
			case r < 53:
				emit("getcfg")
			case r < 55:
				emit("badreload")
			case r < 80 && connected && cuts < 3:
				cuts++
				switch q := rng.Intn(10); {
				case q < 3:
					emit("cut up")
				case q < 9 || refuses == 0:
					emit("cut hang")
					connected = false
				default:
					refuses--
					emit("cut refuse")
					connected = false
				}
			case r < 80 && !connected:
				if refuses > 0 && rng.Intn(6) == 0 {
					refuses--
					emit("refuse") // the hanging dial times out, the client backs off
				} else {
					emit("up")
					connected = true
				}
			default:
				cur = mutate()
				emit("reload" + tok(cur))
			}
		}
		if !connected {
			emit("up")
			i++
		}
		if rng.Intn(3) == 0 {
			emit("stop")
			i++
		}
	}
	emit("reset")
	// out-of-domain stream: ops without a service
	emit("reload 0:100")
	emit("cut hang")
	emit("up")
	emit("getcfg")
}

func init() {
	register(&Engine{Name: "svc", Gen: svcGen, Exec: svcExec})
}
