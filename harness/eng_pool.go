// Engine "pool" (C11): a real server.Service on loopback with UserConnTimeout = 1 s; the harness is a
// scripted raw client (real codec, real client.Connector / yamux) that logs in, registers one tcp proxy
// per session, counts ReqWorkConn, offers work connections, holds them and watches what frps does with
// them, and plays the users of the proxy.  Session teardown is held at the gates `worker.dispDone` /
// `worker.drained` (tag verif) while work and user connections arrive.  A second part drives the real
// vhost HTTPS muxer with listeners that are closed while a connection is being handed over.
//
// Ops (one per line) => result
//
//	reset <maxPool>                     new frps (Transport.MaxPoolCount)                    -
//	login <sid> <pool>                  Login{PoolCount}, NewProxy tcp p-<sid>               ok:<ReqWorkConn seen> | err
//	offer <sid> <wid> <mux> <auth>      NewWorkConn on connector <mux>                       P | R | X | L | O | S:<uid>:<flags>
//	user <sid> <uid>                    dial the proxy's port                                B:<wid>:<flags> | W | C:<consumed> | refused
//	expire <uid>                        wait for a waiting user to be closed                 C:intime | C:early | C:late | open
//	kill <wid>                          the client closes one held work connection           - | uclosed | uopen
//	killmux <mux>                       the client closes a whole yamux session              -
//	close <uid>                         the user closes                                      - | wclosed | wopen
//	data <uid>                          echo through an established bridge                   ok | bad
//	reqs <sid>                          ReqWorkConn messages seen so far                     <n>
//	newproxy <sid> <p>                  NewProxy tcp (p0: the proxy the users dial, p<k>: more) ok:<ReqWorkConn seen> | err:<n>
//	closeproxy <sid> <p>                CloseProxy, then Ping/Pong                           ok:<ReqWorkConn seen>
//	end <sid>                           the client closes the control connection             w=<closed>/<open>;u=<closed>/<open>
//	gate <sid> <point>                  same, but teardown parks at the gate                 parked | noparked
//	release <sid>                       un-park, wait for the end                            as end
//	child <enc>                         inner ops (`;` separated, `,` for blanks) in a sacrificial process
//	mxreset | mxlisten <l> <dom> | mxconn <c> <dom> | mxaccept <l> | mxclose <l>             vhost HTTPS muxer
//	vl… | vp… | gp…                     visitor-listener and group-listener accept paths: eng_pool_vl.go
//	sq…                                 the control-message send path with a client that stops reading: eng_pool_send.go
//
// flags: n/N StartWorkConn.ProxyName right/wrong, s/S source address, t/T destination address, d/D payload echo.
package main

import (
	"bufio"
	"bytes"
	"context"
	"crypto/tls"
	"fmt"
	"io"
	"math/rand"
	"net"
	"os"
	"os/exec"
	"sort"
	"strconv"
	"strings"
	"sync"
	"time"

	"github.com/samber/lo"

	"github.com/fatedier/frp/client"
	v1 "github.com/fatedier/frp/pkg/config/v1"
	"github.com/fatedier/frp/pkg/msg"
	"github.com/fatedier/frp/pkg/util/log"
	netpkg "github.com/fatedier/frp/pkg/util/net"
	"github.com/fatedier/frp/pkg/util/verifhook"
	"github.com/fatedier/frp/pkg/util/version"
	"github.com/fatedier/frp/pkg/util/vhost"
	"github.com/fatedier/frp/server"
)

const poolToken = "pool-tok"

var poolWait = 4 * time.Second // generous; a healthy run never waits for it

type poolWC struct {
	id, sid, mux string
	c            net.Conn
	mu           sync.Mutex
	start        *msg.StartWorkConn
	eof          bool
	data         []byte
	localClosed  bool
	state        string // harness view: P R X L S B
	user         string
}

type poolUser struct {
	id, sid   string
	c         net.Conn
	lport     int
	t0        time.Time
	mu        sync.Mutex
	eof       bool
	eofAt     time.Time
	data      []byte
	wc        *poolWC
	waiting   bool
	localDone bool
}

type poolSess struct {
	sid, runID string
	c          net.Conn
	rw         io.ReadWriter
	mu         sync.Mutex
	reqs       int
	eof        bool
	resp       chan *msg.NewProxyResp
	pong       chan struct{}
	proxy      string
	port       int
	ended      bool
	parked     chan struct{}
	isParked   chan struct{}
}

type poolState struct {
	svr        *server.Service
	port       int
	connectors map[string]client.Connector
	sess       map[string]*poolSess
	wcs        map[string]*poolWC
	users      map[string]*poolUser
	gmu        sync.Mutex
	gates      map[string]string // hostname (= sid) -> point
	lockHeld   bool
	mx         *poolMx
	gs         map[string]*poolGSess // sessions on a gate connection: eng_pool_send.go
}

var poolSt = &poolState{}

func (st *poolState) stop() {
	verifhook.Set(nil)
	st.stopGates()
	for _, s := range st.sess {
		if s.parked != nil {
			select {
			case <-s.parked:
			default:
				close(s.parked)
			}
		}
		s.c.Close()
	}
	for _, w := range st.wcs {
		w.c.Close()
	}
	for _, u := range st.users {
		u.c.Close()
	}
	for _, c := range st.connectors {
		c.Close()
	}
	if st.svr != nil {
		st.svr.Close()
	}
	if st.mx != nil {
		st.mx.stop()
	}
	*st = poolState{}
}

func (st *poolState) startSvr(maxPool int) {
	st.stop()
	// frps logs recovered panics with a stack at error level: keep them off the trace
	log.InitLogger(os.DevNull, "error", 0, true)
	var lastErr error
	for attempt := 0; attempt < 5; attempt++ {
		cfg := &v1.ServerConfig{}
		cfg.BindAddr = "127.0.0.1"
		cfg.ProxyBindAddr = "127.0.0.1"
		l, err := net.Listen("tcp", "127.0.0.1:0")
		if err != nil {
			panic(err)
		}
		cfg.BindPort = l.Addr().(*net.TCPAddr).Port
		l.Close()
		cfg.Auth.Method = v1.AuthMethodToken
		cfg.Auth.Token = poolToken
		cfg.Auth.AdditionalScopes = []v1.AuthScope{v1.AuthScopeNewWorkConns}
		cfg.Transport.HeartbeatTimeout = 90
		cfg.Complete()
		cfg.Transport.MaxPoolCount = int64(maxPool) // after Complete: 0 must stay 0
		cfg.UserConnTimeout = 1
		svr, err := server.NewService(cfg)
		if err != nil {
			lastErr = err
			continue
		}
		go svr.Run(context.Background())
		st.svr, st.port = svr, cfg.BindPort
		st.connectors = map[string]client.Connector{}
		st.sess = map[string]*poolSess{}
		st.wcs = map[string]*poolWC{}
		st.users = map[string]*poolUser{}
		st.gates = map[string]string{}
		peInstallHook() // poolHook below + the pe sessions' part (eng_pool_end.go)
		return
	}
	panic(fmt.Sprint("cannot start frps: ", lastErr))
}

// the gates of the sessions on the real frps: hostname (= sid) -> point
func poolHook(point string, keys []string) {
	st := poolSt
	if len(keys) < 2 || st.gates == nil {
		return
	}
	st.gmu.Lock()
	want := st.gates[keys[1]]
	var s *poolSess
	if want == point {
		delete(st.gates, keys[1])
		s = st.sess[keys[1]]
	}
	st.gmu.Unlock()
	if s != nil {
		close(s.isParked)
		<-s.parked
	}
}

func (st *poolState) connector(name string) (client.Connector, error) {
	if c, ok := st.connectors[name]; ok {
		return c, nil
	}
	cc := &v1.ClientCommonConfig{}
	cc.ServerAddr = "127.0.0.1"
	cc.ServerPort = st.port
	cc.Transport.Protocol = "tcp"
	cc.Transport.TLS.Enable = lo.ToPtr(false)
	cc.Complete()
	cc.Transport.ProxyURL = ""
	c := client.NewConnector(context.Background(), cc)
	if err := c.Open(); err != nil {
		return nil, err
	}
	st.connectors[name] = c
	return c, nil
}

// muxSync makes everything the client did on the yamux session <mux> visible to frps: frames of one
// session are processed in order, so once frps has answered a fresh stream (a NewWorkConn for an
// unknown run id: refused and closed) it has processed the FIN of every stream closed before.
func (st *poolState) muxSync(mux string) {
	conn, ok := st.connectors[mux]
	if !ok {
		return
	}
	c, err := conn.Connect()
	if err != nil {
		return
	}
	defer c.Close()
	if err := msg.WriteMsg(c, &msg.NewWorkConn{RunID: "verif-sync"}); err != nil {
		return
	}
	_ = c.SetReadDeadline(time.Now().Add(poolWait))
	_, _ = io.Copy(io.Discard, c)
}

// len(workConnCh) of the session, -1 if it is not in the table.  While a worker is parked at
// `worker.drained` it holds ctl.mu, which VerifAuthSessions needs: then only presence is reported.
func (st *poolState) poolLen(runID string) int {
	if st.lockHeld {
		by, _ := st.svr.VerifSessDump()
		if _, ok := by[runID]; ok {
			return 0
		}
		return -1
	}
	for _, s := range st.svr.VerifAuthSessions() {
		if s.RunID == runID {
			return s.Pool
		}
	}
	return -1
}

func poolUntil(d time.Duration, f func() bool) bool {
	deadline := time.Now().Add(d)
	for {
		if f() {
			return true
		}
		if time.Now().After(deadline) {
			return false
		}
		time.Sleep(150 * time.Microsecond)
	}
}

func (s *poolSess) reader() {
	for {
		m, err := msg.ReadMsg(s.rw)
		if err != nil {
			s.mu.Lock()
			s.eof = true
			s.mu.Unlock()
			return
		}
		switch v := m.(type) {
		case *msg.ReqWorkConn:
			s.mu.Lock()
			s.reqs++
			s.mu.Unlock()
		case *msg.NewProxyResp:
			select {
			case s.resp <- v:
			default:
			}
		case *msg.Pong:
			select {
			case s.pong <- struct{}{}:
			default:
			}
		}
	}
}

func (s *poolSess) reqCount() int {
	s.mu.Lock()
	defer s.mu.Unlock()
	return s.reqs
}

// settle: the count did not move for `quiet`
func (s *poolSess) settledReqs(quiet time.Duration) int {
	last, since := s.reqCount(), time.Now()
	for time.Since(since) < quiet {
		time.Sleep(500 * time.Microsecond)
		if n := s.reqCount(); n != last {
			last, since = n, time.Now()
		}
	}
	return last
}

func (w *poolWC) reader() {
	m, err := msg.ReadMsg(w.c)
	if err != nil {
		w.mu.Lock()
		w.eof = true
		w.mu.Unlock()
		return
	}
	sw, _ := m.(*msg.StartWorkConn)
	if sw == nil {
		sw = &msg.StartWorkConn{Error: "not-a-StartWorkConn"}
	}
	w.mu.Lock()
	w.start = sw
	w.mu.Unlock()
	buf := make([]byte, 4096)
	for {
		n, err := w.c.Read(buf)
		w.mu.Lock()
		w.data = append(w.data, buf[:n]...)
		if err != nil {
			w.eof = true
		}
		w.mu.Unlock()
		if err != nil {
			return
		}
	}
}

func (w *poolWC) snap() (*msg.StartWorkConn, bool, int) {
	w.mu.Lock()
	defer w.mu.Unlock()
	return w.start, w.eof, len(w.data)
}

func (u *poolUser) reader() {
	buf := make([]byte, 4096)
	for {
		n, err := u.c.Read(buf)
		u.mu.Lock()
		u.data = append(u.data, buf[:n]...)
		if err != nil && !u.eof {
			u.eof = true
			u.eofAt = time.Now()
		}
		u.mu.Unlock()
		if err != nil {
			return
		}
	}
}

func (u *poolUser) isEOF() bool {
	u.mu.Lock()
	defer u.mu.Unlock()
	return u.eof
}

// payload echo user -> work conn -> user
func poolEcho(u *poolUser, w *poolWC) bool {
	tokn := []byte("ping-" + u.id + "-" + w.id + "\n")
	w.mu.Lock()
	w0 := len(w.data)
	w.mu.Unlock()
	u.mu.Lock()
	u0 := len(u.data)
	u.mu.Unlock()
	if _, err := u.c.Write(tokn); err != nil {
		return false
	}
	ok := poolUntil(poolWait, func() bool {
		w.mu.Lock()
		defer w.mu.Unlock()
		return len(w.data) >= w0+len(tokn) || w.eof
	})
	w.mu.Lock()
	got := append([]byte{}, w.data[w0:]...)
	w.mu.Unlock()
	if !ok || !bytes.Equal(got, tokn) {
		return false
	}
	back := []byte("pong-" + w.id + "-" + u.id + "\n")
	if _, err := w.c.Write(back); err != nil {
		return false
	}
	ok = poolUntil(poolWait, func() bool {
		u.mu.Lock()
		defer u.mu.Unlock()
		return len(u.data) >= u0+len(back) || u.eof
	})
	u.mu.Lock()
	got = append([]byte{}, u.data[u0:]...)
	u.mu.Unlock()
	return ok && bytes.Equal(got, back)
}

func (st *poolState) flags(s *poolSess, u *poolUser, w *poolWC, sw *msg.StartWorkConn) string {
	f := ""
	pickc := func(ok bool, a, b string) string {
		if ok {
			return a
		}
		return b
	}
	f += pickc(sw.ProxyName == s.proxy, "n", "N")
	f += pickc(u != nil && sw.SrcAddr == "127.0.0.1" && int(sw.SrcPort) == u.lport, "s", "S")
	f += pickc(sw.DstAddr == "127.0.0.1" && int(sw.DstPort) == s.port, "t", "T")
	if u != nil && !u.localDone {
		f += pickc(poolEcho(u, w), "d", "D")
	} else {
		f += "-"
	}
	return f
}

func (st *poolState) userByPort(sid string, port int) *poolUser {
	for _, u := range st.users {
		if u.sid == sid && u.lport == port {
			return u
		}
	}
	return nil
}

func (st *poolState) waiters(sid string) int {
	n := 0
	for _, u := range st.users {
		if u.sid == sid && u.waiting && !u.isEOF() {
			n++
		}
	}
	return n
}

// census after a session end: held, un-started work connections must be closed; waiting users too
func (st *poolState) census(s *poolSess) string {
	wc, wo, uc, uo := 0, 0, 0, 0
	ids := []string{}
	for id := range st.wcs {
		ids = append(ids, id)
	}
	sort.Strings(ids)
	for _, id := range ids {
		w := st.wcs[id]
		if w.sid != s.sid || w.localClosed || (w.state != "P" && w.state != "L") {
			continue
		}
		if w.mux != "m0" {
			if _, ok := st.connectors[w.mux]; !ok {
				continue // its yamux session was killed by the client
			}
		}
		d := poolWait
		if w.state == "L" || wo > 0 {
			d = 300 * time.Millisecond
		}
		if poolUntil(d, func() bool { _, eof, _ := w.snap(); return eof }) {
			wc++
			w.state = "R"
		} else {
			wo++
		}
	}
	uids := []string{}
	for id := range st.users {
		uids = append(uids, id)
	}
	sort.Strings(uids)
	for _, id := range uids {
		u := st.users[id]
		if u.sid != s.sid || !u.waiting {
			continue
		}
		d := poolWait
		if uo > 0 {
			d = 300 * time.Millisecond
		}
		if poolUntil(d, u.isEOF) {
			uc++
			u.waiting = false
		} else {
			uo++
		}
	}
	return fmt.Sprintf("w=%d/%d;u=%d/%d", wc, wo, uc, uo)
}

func (st *poolState) gone(s *poolSess) bool {
	return poolUntil(poolWait, func() bool { return st.poolLen(s.runID) < 0 })
}

func poolExec(tok []string) string {
	st := poolSt
	switch tok[0] {
	case "reset":
		st.startSvr(atoi(tok[1]))
		return "-"
	case "child":
		return poolChild(tok[1])
	case "mxreset", "mxlisten", "mxconn", "mxaccept", "mxclose":
		return poolMxExec(st, tok)
	}
	if strings.HasPrefix(tok[0], "sq") {
		return poolGExec(st, tok)
	}
	if strings.HasPrefix(tok[0], "pe") {
		return poolPeExec(tok)
	}
	if strings.HasPrefix(tok[0], "vl") || strings.HasPrefix(tok[0], "vp") || strings.HasPrefix(tok[0], "gp") {
		return poolVlExec(tok)
	}
	if st.svr == nil {
		st.startSvr(5)
	}
	switch tok[0] {
	case "login":
		sid, pool := tok[1], atoi(tok[2])
		conn, err := st.connector("m0")
		if err != nil {
			return "dialerr"
		}
		c, err := conn.Connect()
		if err != nil {
			return "dialerr"
		}
		ts := time.Now().Unix()
		lm := &msg.Login{Version: version.Full(), Hostname: sid, Os: "linux", Arch: "amd64",
			Timestamp: ts, PrivilegeKey: peerKey(poolToken, ts), PoolCount: pool}
		if err := msg.WriteMsg(c, lm); err != nil {
			c.Close()
			return "err"
		}
		_ = c.SetReadDeadline(time.Now().Add(poolWait))
		m, err := msg.ReadMsg(c)
		if err != nil {
			c.Close()
			return "err"
		}
		_ = c.SetReadDeadline(time.Time{})
		resp, ok := m.(*msg.LoginResp)
		if !ok || resp.Error != "" {
			c.Close()
			return "err"
		}
		rw, err := netpkg.NewCryptoReadWriter(c, []byte(poolToken))
		if err != nil {
			return "err"
		}
		s := &poolSess{sid: sid, runID: resp.RunID, c: c, rw: rw, resp: make(chan *msg.NewProxyResp, 4), pong: make(chan struct{}, 4),
			proxy: "p-" + sid, parked: make(chan struct{}), isParked: make(chan struct{})}
		st.gmu.Lock()
		st.sess[sid] = s
		st.gmu.Unlock()
		go s.reader()
		if err := msg.WriteMsg(rw, &msg.NewProxy{ProxyName: s.proxy, ProxyType: "tcp", RemotePort: 0}); err != nil {
			return "err"
		}
		select {
		case r := <-s.resp:
			if r.Error != "" {
				return "err:proxy"
			}
			_, p, _ := net.SplitHostPort(r.RemoteAddr)
			s.port = atoi(p)
		case <-time.After(poolWait):
			return "err:proxy"
		}
		return "ok:" + strconv.Itoa(s.settledReqs(15*time.Millisecond))

	case "offer":
		sid, wid, mux, auth := tok[1], tok[2], tok[3], tok[4] == "1"
		s := st.sess[sid]
		if s == nil {
			return "nosess"
		}
		conn, err := st.connector(mux)
		if err != nil {
			return "dialerr"
		}
		c, err := conn.Connect()
		if err != nil {
			return "dialerr"
		}
		before := st.poolLen(s.runID)
		ts := time.Now().Unix()
		key := peerKey(poolToken, ts)
		if !auth {
			key = peerKey("other", ts)
		}
		w := &poolWC{id: wid, sid: sid, mux: mux, c: c}
		st.wcs[wid] = w
		if err := msg.WriteMsg(c, &msg.NewWorkConn{RunID: s.runID, Timestamp: ts, PrivilegeKey: key}); err != nil {
			c.Close()
			return "writeerr"
		}
		go w.reader()
		t0 := time.Now()
		var pooledSince time.Time
		for {
			sw, eof, _ := w.snap()
			if sw != nil {
				if sw.Error != "" {
					poolUntil(poolWait, func() bool { _, e, _ := w.snap(); return e })
					_, e, _ := w.snap()
					w.state = "X"
					if !e {
						return "X:open"
					}
					return "X"
				}
				u := st.userByPort(sid, int(sw.SrcPort))
				w.state = "S"
				res := "S:?"
				if u != nil {
					u.waiting = false
					u.wc = w
					w.user = u.id
					res = "S:" + u.id
				}
				return res + ":" + st.flags(s, u, w, sw)
			}
			if eof {
				w.state = "R"
				return "R"
			}
			if before >= 0 && st.poolLen(s.runID) > before {
				if st.waiters(sid) == 0 {
					w.state = "P"
					return "P"
				}
				if pooledSince.IsZero() {
					pooledSince = time.Now()
				} else if time.Since(pooledSince) > 60*time.Millisecond {
					w.state = "P"
					return "P"
				}
			} else {
				pooledSince = time.Time{}
			}
			if time.Since(t0) > 500*time.Millisecond {
				// neither pooled nor closed nor started.  `L` only where the known window is held open
				// (teardown parked after the drain); anywhere else it is reported as `O`.
				w.state = "L"
				if st.lockHeld && s.ended {
					return "L"
				}
				return "O"
			}
			time.Sleep(150 * time.Microsecond)
		}

	case "user":
		sid, uid := tok[1], tok[2]
		s := st.sess[sid]
		if s == nil {
			return "nosess"
		}
		started := map[string]bool{}
		for id, w := range st.wcs {
			if sw, _, _ := w.snap(); sw != nil {
				started[id] = true
			}
		}
		reqs0 := s.reqCount()
		pool0 := st.poolLen(s.runID)
		c, err := net.DialTimeout("tcp", net.JoinHostPort("127.0.0.1", strconv.Itoa(s.port)), poolWait)
		if err != nil {
			return "refused"
		}
		u := &poolUser{id: uid, sid: sid, c: c, lport: c.LocalAddr().(*net.TCPAddr).Port, t0: time.Now()}
		st.users[uid] = u
		go u.reader()
		for {
			for id, w := range st.wcs {
				// a work connection the client has closed itself cannot carry a bridge, whether or not its
				// reader still got to see the StartWorkConn frps wrote into the half-closed stream: what
				// counts for such a hand-out is that frps closes the user connection (reported as C:<n>)
				if w.sid != sid || started[id] || w.localClosed {
					continue
				}
				if sw, _, _ := w.snap(); sw != nil && sw.Error == "" {
					w.state, w.user, u.wc = "B", uid, w
					return "B:" + id + ":" + st.flags(s, u, w, sw)
				}
			}
			if u.isEOF() {
				// closed by frps; <n> = pooled connections this handler consumed on the way (dead ones:
				// skipped after a failed StartWorkConn write, or taken, "bridged" and dropped at once)
				n := 0
				if p1 := st.poolLen(s.runID); pool0 > 0 && p1 >= 0 && p1 < pool0 {
					n = pool0 - p1
				}
				return "C:" + strconv.Itoa(n)
			}
			el := time.Since(u.t0)
			if el > 50*time.Millisecond && st.poolLen(s.runID) == 0 && s.reqCount() > reqs0 {
				u.waiting = true
				return "W"
			}
			if el > poolWait {
				return "stuck"
			}
			time.Sleep(150 * time.Microsecond)
		}

	case "expire":
		u := st.users[tok[1]]
		if u == nil {
			return "nouser"
		}
		if !poolUntil(poolWait, u.isEOF) {
			return "open"
		}
		u.waiting = false
		u.mu.Lock()
		el := u.eofAt.Sub(u.t0)
		u.mu.Unlock()
		switch {
		case el < 950*time.Millisecond:
			return "C:early"
		case el > 2800*time.Millisecond:
			return "C:late"
		}
		return "C:intime"

	case "kill":
		w := st.wcs[tok[1]]
		if w == nil {
			return "nowc"
		}
		w.localClosed = true
		w.c.Close()
		st.muxSync(w.mux)
		if w.user != "" {
			if u := st.users[w.user]; u != nil && !u.localDone {
				if poolUntil(poolWait, u.isEOF) {
					return "uclosed"
				}
				return "uopen"
			}
		}
		return "-"

	case "killmux":
		if c, ok := st.connectors[tok[1]]; ok && tok[1] != "m0" {
			c.Close()
			delete(st.connectors, tok[1])
			for _, w := range st.wcs {
				if w.mux == tok[1] {
					w.localClosed = true
				}
			}
			time.Sleep(60 * time.Millisecond) // let frps notice the dead session
		}
		return "-"

	case "close":
		u := st.users[tok[1]]
		if u == nil {
			return "nouser"
		}
		u.localDone = true
		u.c.Close()
		if u.wc != nil && !u.wc.localClosed {
			w := u.wc
			if poolUntil(poolWait, func() bool { _, e, _ := w.snap(); return e }) {
				return "wclosed"
			}
			return "wopen"
		}
		return "-"

	case "data":
		u := st.users[tok[1]]
		if u == nil {
			return "nouser"
		}
		// a user connection that was never bridged (closed, waiting, handed a dead pooled connection):
		// no echo is possible; the canonical answer is `bad`, as for a bridge that has ended
		if u.wc == nil || u.wc.localClosed || u.isEOF() {
			return "bad"
		}
		if poolEcho(u, u.wc) {
			return "ok"
		}
		return "bad"

	case "reqs":
		s := st.sess[tok[1]]
		if s == nil {
			return "nosess"
		}
		return strconv.Itoa(s.settledReqs(25 * time.Millisecond))

	case "newproxy", "closeproxy":
		// the session's proxy map over its history: p0 is the proxy the users dial, p<k> are further tcp proxies
		s := st.sess[tok[1]]
		if s == nil || s.ended {
			return "nosess"
		}
		name := s.proxy
		if tok[2] != "p0" {
			name = "x" + tok[2][1:] + "-" + s.sid
		}
		if tok[0] == "newproxy" {
			for len(s.resp) > 0 {
				<-s.resp
			}
			if err := msg.WriteMsg(s.rw, &msg.NewProxy{ProxyName: name, ProxyType: "tcp", RemotePort: 0}); err != nil {
				return "writeerr"
			}
			select {
			case r := <-s.resp:
				if r.Error != "" {
					return "err:" + strconv.Itoa(s.settledReqs(15*time.Millisecond))
				}
				if tok[2] == "p0" {
					_, p, _ := net.SplitHostPort(r.RemoteAddr)
					s.port = atoi(p)
				}
			case <-time.After(poolWait):
				return "noresp"
			}
			return "ok:" + strconv.Itoa(s.settledReqs(15*time.Millisecond))
		}
		// CloseProxy has no answer; the dispatcher handles messages in order, so the Pong follows the close
		for len(s.pong) > 0 {
			<-s.pong
		}
		if err := msg.WriteMsg(s.rw, &msg.CloseProxy{ProxyName: name}); err != nil {
			return "writeerr"
		}
		if err := msg.WriteMsg(s.rw, &msg.Ping{}); err != nil {
			return "writeerr"
		}
		select {
		case <-s.pong:
		case <-time.After(poolWait):
			return "nopong"
		}
		return "ok:" + strconv.Itoa(s.settledReqs(15*time.Millisecond))

	case "end":
		s := st.sess[tok[1]]
		if s == nil || s.ended {
			return "nosess"
		}
		s.ended = true
		s.c.Close()
		if !st.gone(s) {
			return "notgone"
		}
		return st.census(s)

	case "gate":
		s := st.sess[tok[1]]
		if s == nil || s.ended {
			return "nosess"
		}
		s.ended = true
		st.gmu.Lock()
		st.gates[s.sid] = tok[2]
		st.gmu.Unlock()
		s.c.Close()
		select {
		case <-s.isParked:
			st.lockHeld = tok[2] == "worker.drained"
			return "parked"
		case <-time.After(poolWait):
			return "noparked"
		}

	case "release":
		s := st.sess[tok[1]]
		if s == nil {
			return "nosess"
		}
		select {
		case <-s.parked:
		default:
			close(s.parked)
		}
		st.lockHeld = false
		if !st.gone(s) {
			return "notgone"
		}
		return st.census(s)
	}
	return "badop"
}

// ---------------------------------------------------------------- vhost HTTPS muxer hand-off

type poolMxConn struct {
	id    string
	c     net.Conn
	laddr string
	mu    sync.Mutex
	eof   bool
	on    string // listener it was routed to
	got   bool
}

type poolMx struct {
	ln     net.Listener
	mux    *vhost.HTTPSMuxer
	lsn    map[string]*vhost.Listener
	conns  map[string]*poolMxConn
	mu     sync.Mutex
	routed map[string]bool // client address -> success hook ran
}

func (m *poolMx) stop() {
	for _, c := range m.conns {
		c.c.Close()
	}
	m.ln.Close()
}

func poolMxExec(st *poolState, tok []string) string {
	if tok[0] == "mxreset" {
		if st.mx != nil {
			st.mx.stop()
		}
		ln, err := net.Listen("tcp", "127.0.0.1:0")
		if err != nil {
			panic(err)
		}
		mux, err := vhost.NewHTTPSMuxer(ln, 3*time.Second)
		if err != nil {
			panic(err)
		}
		m := &poolMx{ln: ln, mux: mux, lsn: map[string]*vhost.Listener{}, conns: map[string]*poolMxConn{}, routed: map[string]bool{}}
		mux.SetSuccessHookFunc(func(c net.Conn, _ map[string]string) error {
			m.mu.Lock()
			m.routed[c.RemoteAddr().String()] = true
			m.mu.Unlock()
			return nil
		})
		st.mx = m
		return "-"
	}
	m := st.mx
	if m == nil {
		return "nomx"
	}
	switch tok[0] {
	case "mxlisten":
		l, err := m.mux.Listen(context.Background(), &vhost.RouteConfig{Domain: unhx(tok[2])})
		if err != nil {
			return "err"
		}
		m.lsn[tok[1]] = l
		return "ok"
	case "mxconn":
		c, err := net.DialTimeout("tcp", m.ln.Addr().String(), poolWait)
		if err != nil {
			return "dialerr"
		}
		mc := &poolMxConn{id: tok[1], c: c, laddr: c.LocalAddr().String()}
		m.conns[tok[1]] = mc
		go func() {
			// writes the ClientHello, then reads until the server closes (or for ever)
			err := tls.Client(c, &tls.Config{ServerName: unhx(tok[2]), InsecureSkipVerify: true}).Handshake()
			_ = err
			mc.mu.Lock()
			mc.eof = true
			mc.mu.Unlock()
		}()
		res := "stuck"
		poolUntil(poolWait, func() bool {
			m.mu.Lock()
			r := m.routed[mc.laddr]
			m.mu.Unlock()
			if r {
				res = "routed"
				return true
			}
			mc.mu.Lock()
			e := mc.eof
			mc.mu.Unlock()
			if e {
				res = "closed"
				return true
			}
			return false
		})
		if res == "routed" {
			for name, l := range m.lsn {
				if strings.EqualFold(l.Name(), unhx(tok[2])) {
					mc.on = name
				}
			}
			time.Sleep(3 * time.Millisecond) // from the success hook to the send: two statements
		}
		return res
	case "mxaccept":
		l := m.lsn[tok[1]]
		if l == nil {
			return "nolsn"
		}
		type acc struct {
			c   net.Conn
			err error
		}
		ch := make(chan acc, 1)
		go func() {
			c, err := l.Accept()
			ch <- acc{c, err}
		}()
		select {
		case a := <-ch:
			if a.err != nil {
				return "lclosed"
			}
			for id, mc := range m.conns {
				if mc.laddr == a.c.RemoteAddr().String() {
					mc.got = true
					return "got:" + id
				}
			}
			return "got:?"
		case <-time.After(time.Second):
			return "none"
		}
	case "mxclose":
		l := m.lsn[tok[1]]
		if l == nil {
			return "nolsn"
		}
		delete(m.lsn, tok[1])
		l.Close()
		var closed, limbo []string
		ids := []string{}
		for id := range m.conns {
			ids = append(ids, id)
		}
		sort.Slice(ids, func(i, j int) bool {
			if len(ids[i]) != len(ids[j]) {
				return len(ids[i]) < len(ids[j])
			}
			return ids[i] < ids[j]
		})
		for _, id := range ids {
			mc := m.conns[id]
			if mc.on != tok[1] || mc.got {
				continue
			}
			d := poolWait
			if len(limbo) > 0 {
				d = 250 * time.Millisecond
			} else {
				d = 400 * time.Millisecond
			}
			if poolUntil(d, func() bool { mc.mu.Lock(); defer mc.mu.Unlock(); return mc.eof }) {
				closed = append(closed, id)
			} else {
				limbo = append(limbo, id)
			}
			mc.on = ""
		}
		return "closed=" + strings.Join(closed, ",") + ";limbo=" + strings.Join(limbo, ",")
	}
	return "badop"
}

// ---------------------------------------------------------------- sacrificial child

// poolChild re-executes this binary; the child runs the inner ops on the real code without any
// recover, so an unrecovered panic in a frps goroutine kills the child exactly as it would kill frps.
func poolChild(enc string) string {
	var in bytes.Buffer
	for _, op := range strings.Split(enc, ";") {
		in.WriteString(strings.ReplaceAll(op, ",", " ") + "\n")
	}
	cmd := exec.Command(os.Args[0], "pool", "child")
	cmd.Env = append(os.Environ(), "VERIF_POOL_CHILD=1")
	cmd.Stdin = &in
	var out, errb bytes.Buffer
	cmd.Stdout = &out
	cmd.Stderr = &errb
	done := make(chan error, 1)
	if err := cmd.Start(); err != nil {
		return "spawnfail"
	}
	go func() { done <- cmd.Wait() }()
	var err error
	select {
	case err = <-done:
	case <-time.After(30 * time.Second):
		cmd.Process.Kill()
		<-done
		return "hang"
	}
	res := []string{}
	for _, l := range strings.Split(strings.TrimSpace(out.String()), "\n") {
		if l != "" {
			res = append(res, l)
		}
	}
	if err != nil {
		why := "crash"
		if !strings.Contains(errb.String(), "panic:") && !strings.Contains(errb.String(), "fatal error:") {
			why = "died:" + hx(errb.String()[max(0, len(errb.String())-80):])
		}
		res = append(res, why)
	}
	return strings.Join(res, ";")
}

func poolChildMain() {
	log.InitLogger("console", "error", 0, true)
	sc := bufio.NewScanner(os.Stdin)
	sc.Buffer(make([]byte, 1<<20), 1<<24)
	for sc.Scan() {
		line := strings.TrimSpace(sc.Text())
		if line == "" {
			continue
		}
		fmt.Println(poolExec(strings.Fields(line))) // no recover: a panic ends the process
		time.Sleep(20 * time.Millisecond)           // a panic in a frps goroutine needs a moment to land
	}
	time.Sleep(150 * time.Millisecond)
	os.Exit(0)
}

// ---------------------------------------------------------------- generator

type poolGenSess struct {
	mainOpen bool     // the proxy the users dial is registered
	extras   []string // further proxies of the session
	nx       int
	sid      string
	pc       int // effective poolCount
	pool     []string
	waiting  []string
	bridged  []string
	ended    bool
	gate     string
	released bool
}

type poolGen struct {
	rng     *rand.Rand
	emit    func(string)
	n       int
	nw, nu  int
	ns      int
	expires int
	limbos  int
	sess    []*poolGenSess
	nvc     int // visitor / group user connections
	nvp     int
	ngs     int // sessions on a gate connection
	cycle   int
	ngm     int
	floods  int
	dead    map[string]bool // killed work connections (half dead or dead)
	muxOf   map[string]string
	maxPool int
	npe     int // pool-teardown episodes (eng_pool_end.go)
	npw     int
}

func (g *poolGen) op(s string) { g.emit(s); g.n++ }
func (g *poolGen) wid() string { g.nw++; return "w" + strconv.Itoa(g.nw) }
func (g *poolGen) uid() string { g.nu++; return "u" + strconv.Itoa(g.nu) }

func (g *poolGen) login(pool int) *poolGenSess {
	g.ns++
	s := &poolGenSess{sid: "s" + strconv.Itoa(g.ns), mainOpen: true}
	s.pc = min(pool, g.maxPool)
	g.op(fmt.Sprintf("login %s %d", s.sid, pool))
	g.sess = append(g.sess, s)
	return s
}

func (s *poolGenSess) cap() int { return s.pc + 10 }

func (g *poolGen) offer(s *poolGenSess, mux string, auth bool) {
	w := g.wid()
	g.muxOf[w] = mux
	a := 1
	if !auth {
		a = 0
	}
	g.op(fmt.Sprintf("offer %s %s %s %d", s.sid, w, mux, a))
	if !auth || s.ended && s.gate != "worker.dispDone" {
		return
	}
	if len(s.waiting) > 0 {
		u := s.waiting[0]
		s.waiting = s.waiting[1:]
		s.bridged = append(s.bridged, u)
		return
	}
	if len(s.pool) < s.cap() {
		s.pool = append(s.pool, w)
	}
}

func (g *poolGen) user(s *poolGenSess) {
	u := g.uid()
	g.op(fmt.Sprintf("user %s %s", s.sid, u))
	if !s.mainOpen {
		return // refused
	}
	// what the generator expects (only to steer later ops; the model is the judge)
	tries := s.pc + 1
	for k := 0; k < tries; k++ {
		if len(s.pool) == 0 {
			s.waiting = append(s.waiting, u)
			return
		}
		w := s.pool[0]
		s.pool = s.pool[1:]
		if !g.dead[w] {
			s.bridged = append(s.bridged, u)
			return
		}
		if g.muxOf[w] == "m0" || g.muxOf[w] == "" {
			return // half dead: bridged and closed at once
		}
	}
}

// waiting users never linger: the client delivers now, or (a few times per run) never
func (g *poolGen) resolve(s *poolGenSess) {
	if len(s.waiting) == 0 {
		return
	}
	feed := len(s.waiting)
	if g.expires < 5 && g.rng.Intn(4) == 0 {
		feed = g.rng.Intn(len(s.waiting))
	}
	for j := 0; j < feed; j++ {
		g.offer(s, "m0", true)
	}
	if len(s.waiting) > 0 {
		g.expires++
		for _, v := range s.waiting {
			g.op("expire " + v)
		}
		s.waiting = nil
	}
}

func (g *poolGen) live() []*poolGenSess {
	var r []*poolGenSess
	for _, s := range g.sess {
		if !s.ended {
			r = append(r, s)
		}
	}
	return r
}

func (g *poolGen) mux() string {
	switch r := g.rng.Intn(10); {
	case r < 6:
		return "m0"
	case r < 8:
		return "m1"
	default:
		return "m2"
	}
}

func (g *poolGen) endCleanup(s *poolGenSess) {
	s.ended = true
	s.pool, s.waiting = nil, nil
}

func (g *poolGen) poolEpisode(n int) {
	rng := g.rng
	g.maxPool = pick(rng, []int{0, 1, 2, 5, 5, 8})
	g.sess, g.dead, g.muxOf = nil, map[string]bool{}, map[string]string{}
	g.op(fmt.Sprintf("reset %d", g.maxPool))
	pools := []int{0, 0, 1, 1, 2, 3, 5, 9, 30, -3, -10}
	for i := 1 + rng.Intn(2); i > 0; i-- {
		g.login(pick(rng, pools))
	}
	for k := 0; k < 40+rng.Intn(30) && g.n < n; k++ {
		live := g.live()
		if len(live) == 0 {
			g.login(pick(rng, pools))
			continue
		}
		s := pick(rng, live)
		r := rng.Intn(100)
		switch {
		case r < 26:
			g.offer(s, g.mux(), rng.Intn(20) != 0)
		case r < 31:
			// fill the pool to the brim and beyond
			for j := s.cap() - len(s.pool) + 1 + rng.Intn(3); j > 0; j-- {
				g.offer(s, g.mux(), true)
			}
		case r < 53:
			if s.pc < 0 {
				continue // a user connection would kill frps (and this process): only in `child`
			}
			g.user(s)
			g.resolve(s)
		case r < 61:
			// several users at once, then the client delivers some, the others run out
			if s.pc < 0 {
				continue
			}
			for j := 1 + rng.Intn(3); j > 0; j-- {
				g.user(s)
			}
			g.resolve(s)
		case r < 67:
			if len(s.pool) > 0 {
				w := pick(rng, s.pool)
				if !g.dead[w] {
					g.dead[w] = true
					g.op("kill " + w)
				}
			}
		case r < 70:
			m := pick(rng, []string{"m1", "m2"})
			g.op("killmux " + m)
			for _, t := range g.sess {
				for _, w := range t.pool {
					if g.muxOf[w] == m {
						g.dead[w] = true
					}
				}
			}
		case r < 76:
			if len(s.bridged) > 0 {
				i := rng.Intn(len(s.bridged))
				g.op("data " + s.bridged[i])
			}
		case r < 81:
			if len(s.bridged) > 0 {
				i := rng.Intn(len(s.bridged))
				g.op("close " + s.bridged[i])
				s.bridged = append(s.bridged[:i], s.bridged[i+1:]...)
			}
		case r < 84:
			g.op("reqs " + s.sid)
		case r < 88:
			g.churn(s)
		case r < 91:
			g.login(pick(rng, pools))
		case r < 96:
			// orderly end; then late work connections for the ended session
			if len(s.waiting) == 0 {
				g.op("end " + s.sid)
				g.endCleanup(s)
				for j := rng.Intn(3); j > 0; j-- {
					g.offer(s, g.mux(), true)
				}
			}
		default:
			g.gated(s)
		}
	}
	for _, s := range g.live() {
		if len(s.waiting) == 0 {
			g.op("reqs " + s.sid)
			g.op("end " + s.sid)
		}
	}
}

// the session's proxy map over time: register / close / register again (the proxy the users dial and
// further ones), the map running empty and filling again, duplicates and unknown names; whatever happens
// here the server must not ask for work connections
func (g *poolGen) churn(s *poolGenSess) {
	if len(s.waiting) > 0 || s.ended {
		return
	}
	rng := g.rng
	closeMain := func() {
		g.op("closeproxy " + s.sid + " p0")
		s.mainOpen = false
	}
	openMain := func() {
		g.op("newproxy " + s.sid + " p0")
		s.mainOpen = true
	}
	for j := 1 + rng.Intn(4); j > 0; j-- {
		switch r := rng.Intn(10); {
		case r < 3:
			if s.mainOpen {
				closeMain()
				if rng.Intn(3) == 0 {
					g.user(s)
				}
			} else {
				openMain()
			}
		case r < 5:
			s.nx++
			x := "p" + strconv.Itoa(s.nx)
			g.op("newproxy " + s.sid + " " + x)
			s.extras = append(s.extras, x)
		case r < 7:
			if len(s.extras) > 0 {
				i := rng.Intn(len(s.extras))
				g.op("closeproxy " + s.sid + " " + s.extras[i])
				s.extras = append(s.extras[:i], s.extras[i+1:]...)
			} else if s.mainOpen {
				closeMain()
			}
		case r < 8:
			// a name that is already registered / one that is not
			if rng.Intn(2) == 0 && s.mainOpen {
				g.op("newproxy " + s.sid + " p0")
			} else {
				g.op("closeproxy " + s.sid + " p" + strconv.Itoa(s.nx+7))
			}
		default:
			// the map runs empty, then fills again
			for _, x := range s.extras {
				g.op("closeproxy " + s.sid + " " + x)
			}
			s.extras = nil
			if s.mainOpen {
				closeMain()
			}
			if rng.Intn(2) == 0 {
				s.nx++
				x := "p" + strconv.Itoa(s.nx)
				g.op("newproxy " + s.sid + " " + x)
				s.extras = append(s.extras, x)
			}
			openMain()
		}
	}
	if !s.mainOpen && rng.Intn(4) > 0 {
		openMain()
	}
	g.op("reqs " + s.sid)
}

// the real InternalListener, one method call per op
func (g *poolGen) vlEpisode(n int) {
	rng := g.rng
	g.op("vlnew")
	nq, closed, exited := 0, false, false
	put := func() {
		g.nvc++
		g.op("vlput c" + strconv.Itoa(g.nvc))
		if !closed && nq < 128 {
			nq++
		}
	}
	accept := func() {
		g.op("vlaccept")
		if nq > 0 {
			nq--
		} else {
			exited = true
		}
	}
	for k := 0; k < 10+rng.Intn(25) && !exited && g.n < n; k++ {
		switch r := rng.Intn(100); {
		case r < 45:
			put()
		case r < 48:
			if !closed && g.floods < 1 {
				g.floods++
				for j := 128 - nq + 1 + rng.Intn(3); j > 0; j-- {
					put()
				}
			}
		case r < 78:
			if nq > 0 || closed {
				accept()
			}
		default:
			g.op("vlclose")
			closed = true
		}
	}
	if !closed {
		g.op("vlclose")
		closed = true
	}
	for !exited {
		accept()
	}
}

// a real stcp proxy on a real visitor manager; its accept goroutine stalled and released by the harness
func (g *poolGen) vpEpisode(n int) {
	rng := g.rng
	g.op("vpreset")
	conn := func(p string, stall bool) {
		g.nvc++
		auth := 1
		if rng.Intn(12) == 0 {
			auth = 0
		}
		st := 0
		if stall {
			st = 1
		}
		g.op(fmt.Sprintf("vpconn %s c%d %d %d", p, g.nvc, st, auth))
	}
	for i := 1 + rng.Intn(2); i > 0 && g.n < n; i-- {
		g.nvp++
		p := "p" + strconv.Itoa(g.nvp)
		g.op(fmt.Sprintf("vpnew %s %d", p, rng.Intn(2)))
		stalled := false
		for k := 0; k < 5+rng.Intn(10); k++ {
			switch r := rng.Intn(100); {
			case r < 45:
				st := !stalled && rng.Intn(3) == 0
				conn(p, st)
				stalled = stalled || st
			case r < 60:
				if stalled {
					g.op("vprelease " + p)
					stalled = false
				}
			case r < 80:
				if !stalled {
					conn(p, true)
					stalled = true
				}
				for j := 1 + rng.Intn(5); j > 0; j-- {
					conn(p, false)
				}
			default:
				if rng.Intn(3) == 0 {
					g.op("vpnew " + p + " 0") // the name is taken
				}
			}
		}
		g.op("vpclose " + p)
		for j := rng.Intn(3); j > 0; j-- {
			conn(p, false)
		}
	}
}

// a real load-balancing group; the members' accept loops are the harness
func (g *poolGen) gpEpisode(n int) {
	rng := g.rng
	g.op("gpreset")
	var members []string
	pending := 0
	for k := 0; k < 8+rng.Intn(14) && g.n < n; k++ {
		r := rng.Intn(100)
		if k == 0 {
			r = 0
		}
		switch {
		case r < 20:
			g.ngm++
			m := "m" + strconv.Itoa(g.ngm)
			g.op("gplisten " + m)
			members = append(members, m)
		case r < 24:
			if len(members) > 0 {
				g.op("gplisten " + pick(rng, members)) // already a member
			}
		case r < 62:
			if len(members) > 0 || rng.Intn(4) == 0 {
				g.nvc++
				g.op("gpconn c" + strconv.Itoa(g.nvc))
				if len(members) > 0 {
					pending++
				}
			}
		case r < 82:
			if len(members) > 0 && pending > 0 {
				g.op("gpaccept " + pick(rng, members))
				pending--
			}
		default:
			if len(members) > 0 {
				i := rng.Intn(len(members))
				g.op("gpclose " + members[i])
				members = append(members[:i], members[i+1:]...)
				if len(members) == 0 {
					pending = 0
				}
			}
		}
	}
	for _, m := range members {
		g.op("gpclose " + m)
	}
}

// teardown held at a gate while work / user connections arrive
func (g *poolGen) gated(s *poolGenSess) {
	if len(s.waiting) > 0 || s.pc < 0 {
		return
	}
	rng := g.rng
	point := pick(rng, []string{"worker.dispDone", "worker.drained"})
	if point == "worker.drained" && g.limbos >= 6 {
		point = "worker.dispDone"
	}
	g.op(fmt.Sprintf("gate %s %s", s.sid, point))
	s.ended, s.gate = true, point
	if point == "worker.dispDone" {
		for j := rng.Intn(4); j > 0; j-- {
			g.offer(s, "m0", true)
		}
		for j := rng.Intn(3); j > 0 && len(s.pool) > 0; j-- {
			g.user(s)
		}
	} else {
		s.pool = nil
		for j := 1 + rng.Intn(2); j > 0; j-- {
			g.limbos++
			g.offer(s, "m0", true)
		}
		if rng.Intn(2) == 0 {
			g.user(s) // the pool is closed: the user is closed at once
		}
	}
	g.op("release " + s.sid)
	g.endCleanup(s)
	if rng.Intn(2) == 0 {
		g.offer(s, "m0", true)
	}
}

var poolDomains = []string{"a.example.com", "b.example.com", "c.example.com", "A.example.com"}

func (g *poolGen) mxEpisode(n int) {
	rng := g.rng
	g.op("mxreset")
	type lst struct {
		name, dom string
		parked    int
		open      bool
	}
	var ls []*lst
	nl, nc := 0, 0
	byDom := func(d string) *lst {
		for _, l := range ls {
			if l.open && strings.EqualFold(l.dom, d) {
				return l
			}
		}
		return nil
	}
	for k := 0; k < 16+rng.Intn(12) && g.n < n; k++ {
		r := rng.Intn(100)
		if k < 2 {
			r = 0
		}
		switch {
		case r < 18:
			d := pick(rng, poolDomains)
			nl++
			name := "l" + strconv.Itoa(nl)
			g.op(fmt.Sprintf("mxlisten %s %s", name, hx(d)))
			if byDom(d) == nil {
				ls = append(ls, &lst{name: name, dom: d, open: true})
			}
		case r < 64:
			d := pick(rng, poolDomains)
			if rng.Intn(6) > 0 {
				var c []*lst
				for _, l := range ls {
					if l.open {
						c = append(c, l)
					}
				}
				if len(c) > 0 {
					d = pick(rng, c).dom
					if rng.Intn(3) == 0 {
						d = strings.ToUpper(d[:1]) + d[1:]
					}
				}
			}
			if l := byDom(d); l != nil && l.parked >= 3 {
				continue
			}
			nc++
			g.op(fmt.Sprintf("mxconn c%d %s", nc, hx(d)))
			if l := byDom(d); l != nil {
				l.parked++
			}
		case r < 88:
			var c []*lst
			for _, l := range ls {
				if l.open && l.parked > 0 {
					c = append(c, l)
				}
			}
			if len(c) > 0 {
				l := pick(rng, c)
				g.op("mxaccept " + l.name)
				l.parked--
			}
		default:
			var c []*lst
			for _, l := range ls {
				if l.open {
					c = append(c, l)
				}
			}
			if len(c) > 0 {
				l := pick(rng, c)
				g.op("mxclose " + l.name)
				l.open = false
			}
		}
	}
	for _, l := range ls {
		if l.open {
			g.op("mxclose " + l.name)
		}
	}
}

func poolGenRun(rng *rand.Rand, n int, emit func(string)) {
	g := &poolGen{rng: rng, emit: emit}
	// the crashes, in a sacrificial process (candidates #4 and negative poolCount)
	g.op("child reset,5;login,s1,-1;user,s1,u1")
	g.op("child reset,5;login,s1,-11")
	g.op("child reset,5;login,s1,-10;offer,s1,w1,m0,1")
	// cycles: one pool episode, then the small accept-path episodes (each in about every second cycle,
	// so that a quick run of ~1100 ops holds several of every kind)
	for g.n < n {
		g.poolEpisode(n)
		for _, ep := range []func(int){g.mxEpisode, g.vlEpisode, g.vpEpisode, g.gpEpisode} {
			if g.n < n && rng.Intn(2) == 0 {
				ep(n)
			}
		}
		// the send path (eng_pool_send.go), in two cycles out of three.  Its choices come from a stream of
		// its own, seeded by what the run has produced so far: the episodes above are the ones the same
		// VERIF_SEED produced before this part existed.
		g.cycle++
		if g.n < n && g.cycle%3 != 0 {
			g.sendEpisode(rand.New(rand.NewSource(int64(g.cycle)*1000003 + int64(g.n)*7919 + int64(g.nw)*31 + int64(g.nu))))
		}
		// the end of the pool on the real Control (eng_pool_end.go), every cycle, again from a stream of its own
		g.peEpisode(rand.New(rand.NewSource(int64(g.cycle)*7368787 + int64(g.n)*104729 + 11)))
	}
}

func init() {
	if os.Getenv("VERIF_POOL_CHILD") != "" && len(os.Args) >= 3 && os.Args[1] == "pool" && os.Args[2] == "child" {
		poolChildMain()
	}
	register(&Engine{Name: "pool", Gen: poolGenRun, Exec: poolExec})
}
