// Correspondence harness: drives the real frp code in-process.
//
//	harness <engine> gen <seed> <n>      write n generated op lines to stdout
//	harness <engine> exec [opsfile]      run op lines against the real code, write "op => result"
//
// Strings travel as "x"+hex (empty string = "x"). One op per line; results are canonical.
package main

import (
	"bufio"
	"encoding/hex"
	"fmt"
	"math/rand"
	"os"
	"strconv"
	"strings"

	"github.com/fatedier/frp/pkg/util/log"
)

type Engine struct {
	Name string
	Gen  func(rng *rand.Rand, n int, emit func(string))
	// Exec runs one op line (already split) and returns the canonical result.
	// State lives in the engine; "reset" must restore the initial state.
	Exec func(tok []string) string
}

var engines = map[string]*Engine{}

func register(e *Engine) { engines[e.Name] = e }

func hx(s string) string { return "x" + hex.EncodeToString([]byte(s)) }

func unhx(t string) string {
	if !strings.HasPrefix(t, "x") {
		panic("bad string token " + t)
	}
	b, err := hex.DecodeString(t[1:])
	if err != nil {
		panic(err)
	}
	return string(b)
}

func atoi(t string) int {
	n, err := strconv.Atoi(t)
	if err != nil {
		panic(err)
	}
	return n
}

func pick[T any](rng *rand.Rand, xs []T) T { return xs[rng.Intn(len(xs))] }

func safeExec(e *Engine, tok []string) (res string) {
	defer func() {
		if r := recover(); r != nil {
			res = "PANIC:" + hx(fmt.Sprint(r))
		}
	}()
	return e.Exec(tok)
}

func main() {
	log.InitLogger("console", "error", 0, true)
	if len(os.Args) < 3 {
		fmt.Fprintln(os.Stderr, "usage: harness <engine> gen <seed> <n> | exec [file]")
		os.Exit(2)
	}
	e := engines[os.Args[1]]
	if e == nil {
		fmt.Fprintln(os.Stderr, "unknown engine", os.Args[1])
		os.Exit(2)
	}
	out := bufio.NewWriterSize(os.Stdout, 1<<20)
	defer out.Flush()
	switch os.Args[2] {
	case "gen":
		seed, _ := strconv.ParseInt(os.Args[3], 10, 64)
		n := atoi(os.Args[4])
		rng := rand.New(rand.NewSource(seed))
		e.Gen(rng, n, func(s string) { fmt.Fprintln(out, s) })
	case "exec":
		in := os.Stdin
		if len(os.Args) > 3 {
			f, err := os.Open(os.Args[3])
			if err != nil {
				panic(err)
			}
			in = f
		}
		sc := bufio.NewScanner(in)
		sc.Buffer(make([]byte, 1<<20), 1<<26)
		for sc.Scan() {
			line := strings.TrimSpace(sc.Text())
			if line == "" || strings.HasPrefix(line, "#") {
				continue
			}
			// allow replaying a trace: drop a previous result
			if i := strings.Index(line, " => "); i >= 0 {
				line = line[:i]
			}
			tok := strings.Fields(line)
			fmt.Fprintf(out, "%s => %s\n", line, safeExec(e, tok))
		}
	default:
		os.Exit(2)
	}
}
