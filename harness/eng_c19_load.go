package main

import (
	"bytes"
	"encoding/json"
	"fmt"
	"os"
	"path/filepath"
	"reflect"

	"github.com/fatedier/frp/pkg/config"
	v1 "github.com/fatedier/frp/pkg/config/v1"
	"github.com/fatedier/frp/pkg/config/v1/validation"
	toml "github.com/pelletier/go-toml/v2"
)

// Configuration text for the C19 engines (client, vmgr, svc).
//
// A reload in frpc is `config.LoadClientConfig(file)` + `validation.ValidateAllClientConfig` +
// `UpdateAllConfigurer` (client/admin_api.go apiReload): every reload hands the managers FRESHLY
// ALLOCATED configuration objects in which the loader's Complete() has filled in what the text left
// out.  The engines do the same: an entry is rendered as TEXT that spells out only the values the
// field vector sets (c19Entry: the un-Complete()d structure, zero / empty / false members pruned —
// localIP, transport.bandwidthLimitMode, the health check's intervalSeconds / timeoutSeconds /
// maxFailed, a plugin's enableHTTP2, a visitor's bindAddr, xtcp's protocol / maxRetriesAnHour /
// minRetryInterval / fallbackTimeoutMs are absent unless the vector sets them), the file is written in
// JSON or TOML (alternating) and read back through the real loader, twice: the second result is kept
// as the PRISTINE image of the first, which goes to the manager.  `intact` compares what a manager
// has stored with that image — whatever the running machinery (NewWrapper, the monitor, the proxy,
// its plugin, a visitor) writes into the shared configuration object shows as a difference.

func c19Prune(v any) (any, bool) {
	switch x := v.(type) {
	case nil:
		return nil, false
	case bool:
		return x, x
	case string:
		return x, x != ""
	case json.Number:
		if i, err := x.Int64(); err == nil {
			return i, i != 0
		}
		f, _ := x.Float64()
		return f, f != 0
	case []any:
		var out []any
		for _, e := range x {
			p, _ := c19Prune(e)
			if p == nil {
				p = map[string]any{}
			}
			out = append(out, p)
		}
		return out, len(out) > 0
	case map[string]any:
		out := map[string]any{}
		for k, e := range x {
			if p, keep := c19Prune(e); keep {
				out[k] = p
			}
		}
		return out, len(out) > 0
	}
	return v, true
}

// c19Entry: the text form of one proxy / visitor entry — only what is set
func c19Entry(raw any) map[string]any {
	b, err := json.Marshal(raw)
	if err != nil {
		panic(err)
	}
	dec := json.NewDecoder(bytes.NewReader(b))
	dec.UseNumber()
	var m any
	if err := dec.Decode(&m); err != nil {
		panic(err)
	}
	p, _ := c19Prune(m)
	if p == nil {
		return map[string]any{}
	}
	return p.(map[string]any)
}

type c19Loader struct {
	dir string
	n   int
}

func (l *c19Loader) close() {
	if l.dir != "" {
		os.RemoveAll(l.dir)
		l.dir = ""
	}
}

// c19Render: the file's bytes; format 0 = JSON, 1 = TOML
func c19Render(doc map[string]any, format int) ([]byte, string) {
	if format == 1 {
		b, err := toml.Marshal(doc)
		if err != nil {
			panic(err)
		}
		return b, "frpc.toml"
	}
	b, err := json.Marshal(doc)
	if err != nil {
		panic(err)
	}
	return b, "frpc.json"
}

type c19Loaded struct {
	proxies  []v1.ProxyConfigurer
	visitors []v1.VisitorConfigurer
	// the same text loaded once more: never handed to frp
	pristineP []v1.ProxyConfigurer
	pristineV []v1.VisitorConfigurer
}

// load writes the entries as a configuration file and reads it the way apiReload does.
func (l *c19Loader) load(proxies, visitors []map[string]any) (*c19Loaded, error) {
	if l.dir == "" {
		d, err := os.MkdirTemp("", "c19cfg")
		if err != nil {
			return nil, err
		}
		l.dir = d
	}
	l.n++
	doc := map[string]any{}
	if len(proxies) > 0 {
		doc["proxies"] = proxies
	}
	if len(visitors) > 0 {
		doc["visitors"] = visitors
	}
	body, name := c19Render(doc, l.n%2)
	path := filepath.Join(l.dir, name)
	if err := os.WriteFile(path, body, 0o600); err != nil {
		return nil, err
	}
	out := &c19Loaded{}
	for pass := 0; pass < 2; pass++ {
		common, pcs, vcs, _, err := config.LoadClientConfig(path, false)
		if err != nil {
			return nil, fmt.Errorf("load: %v", err)
		}
		if _, err := validation.ValidateAllClientConfig(common, pcs, vcs); err != nil {
			return nil, fmt.Errorf("validate: %v", err)
		}
		if len(pcs) != len(proxies) || len(vcs) != len(visitors) {
			return nil, fmt.Errorf("load: %d/%d proxies, %d/%d visitors", len(pcs), len(proxies), len(vcs), len(visitors))
		}
		if pass == 0 {
			out.proxies, out.visitors = pcs, vcs
		} else {
			out.pristineP, out.pristineV = pcs, vcs
		}
	}
	return out, nil
}

// c19Intact: what the manager holds is still what the loader produced
func c19Intact(stored, pristine any) bool {
	return pristine != nil && reflect.DeepEqual(stored, pristine)
}
