package main

import (
	"context"
	"errors"
	"fmt"
	"math/rand"
	"net"
	"sort"
	"strconv"
	"strings"
	"time"

	v1 "github.com/fatedier/frp/pkg/config/v1"
	"github.com/fatedier/frp/pkg/msg"
	"github.com/fatedier/frp/pkg/nathole"
	plugin "github.com/fatedier/frp/pkg/plugin/server"
	"github.com/fatedier/frp/pkg/util/util"
	"github.com/fatedier/frp/server/controller"
	"github.com/fatedier/frp/server/proxy"
)

// Engine "natpx" (property C20, clause "a session is created only for a correctly signed request naming a LIVE
// xtcp proxy"): the REAL server-side xtcp proxy — proxy.NewProxy(XTCPProxyConfig).Run() / Close() of
// server/proxy/xtcp.go with its sid-dispatch goroutine — on a real controller.ResourceController holding a real
// nathole.Controller.  Nothing here calls ListenClient / CloseClient or receives from a sid channel: registration,
// unregistration and the receive are the proxy's.  The proxy's GetWorkConnFn is scripted: it reports that it was
// called and then BLOCKS until the op sequence releases it (a slow owner), answering with a work connection (an
// in-memory pipe whose far end reads StartWorkConn and NatHoleSid like frpc) or with an error.
// NatHoleTimeout is 1 s.  Model: lean/Frp/Model/NatProxy.lean (composition of the proxy with the controller).
//
//	reset
//	run <id> <name> <sk> <allowUsers> <user>   => ok | repeated | err:<hx> | dup-id         (NewProxy + Run of a fresh proxy)
//	close <id>                                  => ok | unknown | hang                       (Close(); returns when Close returned)
//	visit <vid> <name> <skUsed> <user>          => err:<class> | created:fetch<id> | created:pending | created:nofetch<id> | hang
//	                                               (HandleVisitor on its own goroutine; created = a new sid is stored;
//	                                                fetch<id> = proxy id's goroutine took the sid and is now asking
//	                                                its owner for a work connection; pending = that goroutine is busy
//	                                                with an earlier sid, or there is no such proxy)
//	release <id> <ok|err>                       => idle | unknown | exp=<vids|->;sid=<v<vid>|-|?|none>
//	                                               (the owner answers the pending GetWorkConn of proxy id; requests
//	                                                still waiting to be taken by that goroutine are first left to run
//	                                                into NatHoleTimeout — exp lists them —, so that what the goroutine
//	                                                does next does not depend on a race with a timer)
//	reg <name>                                  => 0 | 1                                     (name registered in the controller)
//	precheck <name> <user>                      => ok | noexist | notallowed
//	settle                                      => left=<n>                                  (every handler returned; n sessions still stored)
//	out <vid>                                   => - | <err classes received by the visitor, in order>
type npxInst struct {
	id      int
	name    string
	pxy     proxy.Proxy
	fetch   chan struct{}
	release chan string
	got     chan string
	busy    bool
	closed  bool
}

type npxVisit struct {
	vid     int
	name    string
	tv      *capT
	sid     string
	done    chan struct{}
	pending *npxInst // created, not yet taken by this proxy's goroutine (nil: taken / refused / nobody to take it)
	pan     chan string
}

type npxState struct {
	ctl    *nathole.Controller
	rc     *controller.ResourceController
	inst   map[int]*npxInst
	visits map[int]*npxVisit
	bySid  map[string]*npxVisit
}

var npx *npxState

const npxWait = 2 * time.Second

func npxReset() {
	if npx != nil {
		for _, in := range npx.inst {
			if in.busy {
				select {
				case in.release <- "err":
				default:
				}
			}
			if !in.closed {
				in.pxy.Close()
			}
		}
	}
	nathole.NatHoleTimeout = 1
	c, _ := nathole.NewController(time.Hour)
	npx = &npxState{ctl: c, rc: &controller.ResourceController{NatHoleController: c},
		inst: map[int]*npxInst{}, visits: map[int]*npxVisit{}, bySid: map[string]*npxVisit{}}
}

func (st *npxState) live(name string) *npxInst {
	ids := []int{}
	for id := range st.inst {
		ids = append(ids, id)
	}
	sort.Ints(ids)
	for _, id := range ids {
		if in := st.inst[id]; in.name == name && !in.closed {
			return in
		}
	}
	return nil
}

// the owner's end of a work connection: frpc reads StartWorkConn, then (xtcp) NatHoleSid
func npxOwner(c net.Conn, got chan string) {
	defer c.Close()
	_ = c.SetReadDeadline(time.Now().Add(npxWait))
	m, err := msg.ReadMsg(c)
	if err != nil {
		got <- "?read1"
		return
	}
	if _, ok := m.(*msg.StartWorkConn); !ok {
		got <- fmt.Sprintf("?%T", m)
		return
	}
	m, err = msg.ReadMsg(c)
	if err != nil {
		got <- "?read2"
		return
	}
	if s, ok := m.(*msg.NatHoleSid); ok {
		got <- "sid:" + s.Sid
		return
	}
	got <- fmt.Sprintf("?%T", m)
}

func npxExec(tok []string) string {
	if npx == nil {
		npxReset()
	}
	st := npx
	switch tok[0] {
	case "reset":
		npxReset()
		return "-"
	case "run":
		id := atoi(tok[1])
		if _, dup := st.inst[id]; dup {
			return "dup-id"
		}
		in := &npxInst{id: id, name: unhx(tok[2]), fetch: make(chan struct{}, 64), release: make(chan string, 1), got: make(chan string, 4)}
		user := unhx(tok[5])
		pxy, err := proxy.NewProxy(context.Background(), &proxy.Options{
			UserInfo:           plugin.UserInfo{User: user, RunID: "run" + tok[1]},
			LoginMsg:           &msg.Login{User: user, RunID: "run" + tok[1]},
			PoolCount:          0,
			ResourceController: st.rc,
			GetWorkConnFn: func() (net.Conn, error) {
				in.fetch <- struct{}{}
				if r := <-in.release; r != "ok" {
					return nil, errors.New("scripted owner: no work connection")
				}
				a, b := net.Pipe()
				go npxOwner(b, in.got)
				return a, nil
			},
			Configurer: &v1.XTCPProxyConfig{
				ProxyBaseConfig: v1.ProxyBaseConfig{Name: in.name, Type: "xtcp"},
				Secretkey:       unhx(tok[3]),
				AllowUsers:      unlist(tok[4]),
			},
			ServerCfg: &v1.ServerConfig{},
		})
		if err != nil {
			return "err:" + hx(err.Error())
		}
		if _, err = pxy.Run(); err != nil {
			// server/control.go RegisterProxy: a proxy whose Run failed is dropped, Close is not called on it
			if strings.Contains(err.Error(), "is repeated") {
				return "repeated"
			}
			return "err:" + hx(err.Error())
		}
		in.pxy = pxy
		st.inst[id] = in
		return "ok"
	case "close":
		in, ok := st.inst[atoi(tok[1])]
		if !ok {
			return "unknown"
		}
		done := make(chan struct{})
		go func() { in.pxy.Close(); close(done) }()
		select {
		case <-done:
		case <-time.After(npxWait):
			return "hang"
		}
		in.closed = true
		return "ok"
	case "visit":
		vid := atoi(tok[1])
		if _, dup := st.visits[vid]; dup {
			return "dup-id"
		}
		v := &npxVisit{vid: vid, name: unhx(tok[2]), tv: newCapT(), done: make(chan struct{}), pan: make(chan string, 1)}
		st.visits[vid] = v
		m := &msg.NatHoleVisitor{
			TransactionID: "tv" + tok[1], ProxyName: v.name, Protocol: "quic",
			SignKey: util.GetAuthKey(unhx(tok[3]), 7), Timestamp: 7,
			MappedAddrs: []string{"9.9.9.9:30000", "9.9.9.9:30000"},
		}
		before := map[string]bool{}
		for _, x := range st.ctl.VerifSessions() {
			before[x] = true
		}
		user := unhx(tok[4])
		go func() {
			defer close(v.done)
			defer func() {
				// server/control.go runs HandleVisitor on a bare goroutine: a panic there ends frps
				if r := recover(); r != nil {
					v.pan <- "PANIC:" + hx(fmt.Sprint(r))
				}
			}()
			st.ctl.HandleVisitor(m, v.tv, user)
		}()
		deadline := time.Now().Add(npxWait)
		for v.sid == "" {
			if v.tv.count() > 0 {
				v.tv.mu.Lock()
				e := errClass(v.tv.msgs[0].Error)
				v.tv.mu.Unlock()
				return "err:" + e
			}
			for _, x := range st.ctl.VerifSessions() {
				if !before[x] {
					v.sid = x
					st.bySid[x] = v
				}
			}
			if v.sid == "" {
				if time.Now().After(deadline) {
					return "hang"
				}
				time.Sleep(20 * time.Microsecond)
			}
		}
		in := st.live(v.name)
		if in == nil || in.busy {
			v.pending = in
			return "created:pending"
		}
		select {
		case <-in.fetch:
			in.busy = true
			return "created:fetch" + strconv.Itoa(in.id)
		case <-time.After(npxWait):
			v.pending = in
			return "created:nofetch" + strconv.Itoa(in.id)
		}
	case "release":
		in, ok := st.inst[atoi(tok[1])]
		if !ok {
			return "unknown"
		}
		if !in.busy {
			return "idle"
		}
		// requests parked on this proxy's sid channel: let their notify send time out first
		vids := []int{}
		for vid, v := range st.visits {
			if v.pending == in {
				vids = append(vids, vid)
			}
		}
		sort.Ints(vids)
		exp := []string{}
		for _, vid := range vids {
			v := st.visits[vid]
			select {
			case <-v.done:
				exp = append(exp, strconv.Itoa(vid))
			case <-time.After(npxWait):
				exp = append(exp, strconv.Itoa(vid)+"!")
			}
			v.pending = nil
		}
		es := "-"
		if len(exp) > 0 {
			es = strings.Join(exp, ",")
		}
		in.release <- tok[2]
		in.busy = false
		if tok[2] != "ok" {
			return "exp=" + es + ";sid=-"
		}
		select {
		case g := <-in.got:
			if strings.HasPrefix(g, "sid:") {
				if v, ok := st.bySid[g[4:]]; ok {
					return "exp=" + es + ";sid=v" + strconv.Itoa(v.vid)
				}
			}
			return "exp=" + es + ";sid=?"
		case <-time.After(npxWait):
			return "exp=" + es + ";sid=none"
		}
	case "reg":
		for _, n := range st.ctl.VerifClients() {
			if n == unhx(tok[1]) {
				return "1"
			}
		}
		return "0"
	case "precheck":
		t := newCapT()
		st.ctl.HandleVisitor(&msg.NatHoleVisitor{TransactionID: "p", ProxyName: unhx(tok[1]), PreCheck: true}, t, unhx(tok[2]))
		if t.count() != 1 {
			return fmt.Sprintf("sent=%d", t.count())
		}
		if c := errClass(t.msgs[0].Error); c != "none" {
			return c
		}
		return "ok"
	case "settle":
		deadline := time.After(2500 * time.Millisecond)
		vids := []int{}
		for vid := range st.visits {
			vids = append(vids, vid)
		}
		sort.Ints(vids)
		for _, vid := range vids {
			select {
			case <-st.visits[vid].done:
				st.visits[vid].pending = nil
				select {
				case p := <-st.visits[vid].pan:
					return p
				default:
				}
			case <-deadline:
				return "hang:v" + strconv.Itoa(vid)
			}
		}
		return "left=" + strconv.Itoa(len(st.ctl.VerifSessions()))
	case "out":
		v, ok := st.visits[atoi(tok[1])]
		if !ok {
			return "unknown"
		}
		v.tv.mu.Lock()
		defer v.tv.mu.Unlock()
		if len(v.tv.msgs) == 0 {
			return "-"
		}
		out := []string{}
		for _, m := range v.tv.msgs {
			c := errClass(m.Error)
			if m.Sid != "" {
				c += "+sid"
			}
			out = append(out, c)
		}
		return strings.Join(out, ",")
	}
	return "bad-op"
}

// ---------------------------------------------------------------- generator
//
// A round: a fresh controller and 3..5 proxy names, each with its own random history; the histories are
// interleaved.  The generator keeps, per name, what it believes the situation to be (a live proxy? is its
// goroutine busy with a sid? closed proxies whose goroutine is still busy?) only to make the interesting
// continuations frequent — the classes of histories produced:
//   - visitor request → the sid is in flight (the owner does not answer yet) → Close → then, in any order and
//     number: correctly signed requests, pre-checks, `reg`, Run of a NEW proxy of the same name, the owner's
//     late answer (work connection or error), further requests to the re-registered proxy
//   - Close of an idle proxy / of a proxy whose delivery ended; repeated Close
//   - two and more requests while the owner is slow (the later ones wait on the sid channel), Close in between
//   - fast owner: request, answer, request, answer (ok and err)
//   - requests with a wrong key, by a user outside the allow list, for names never registered; Run of a second
//     proxy while the first of that name is live ("repeated")
//   - rounds end with some deliveries never answered
type npxName struct {
	name     string
	sk       string
	allow    []string
	owner    string
	live     int // instance id, -1 = none
	busy     bool
	zombies  []int // closed instances whose goroutine still waits for the owner
	parked   int   // requests waiting on a busy goroutine (each costs up to 1 s at the next release)
	everUsed bool
}

func npxGen(rng *rand.Rand, n int, emit func(string)) {
	emitted := 0
	e := func(s string) { emit(s); emitted++ }
	users := []string{"alice", "bob", ""}
	for emitted < n {
		e("reset")
		k := 3 + rng.Intn(3)
		names := []*npxName{}
		for i := 0; i < k; i++ {
			nm := &npxName{name: "p" + string(rune('a'+i)), sk: pick(rng, []string{"sk", "sk1", "k"}), live: -1, owner: pick(rng, users[:2])}
			switch rng.Intn(4) {
			case 0:
				nm.allow = nil // only the owner's user
			case 1:
				nm.allow = []string{"alice"}
			default:
				nm.allow = []string{"*"}
			}
			names = append(names, nm)
		}
		nextID, nextVid := 0, 0
		vids := []int{}
		parkedTotal, parkedRound := 0, 0 // a parked request costs up to 1 s of wall time at the next release
		goodUser := func(nm *npxName) string {
			if len(nm.allow) == 0 {
				return nm.owner
			}
			if nm.allow[0] == "*" {
				return pick(rng, users)
			}
			return nm.allow[0]
		}
		visit := func(nm *npxName, good bool) {
			sk, user := nm.sk, goodUser(nm)
			if !good {
				switch rng.Intn(3) {
				case 0:
					sk = pick(rng, []string{"other", "", nm.sk + "x"})
				case 1:
					user = "mallory"
				default:
					sk, user = "other", "mallory"
				}
			}
			e(fmt.Sprintf("visit %d %s %s %s", nextVid, hx(nm.name), hx(sk), hx(user)))
			vids = append(vids, nextVid)
			nextVid++
		}
		run := func(nm *npxName) {
			e(fmt.Sprintf("run %d %s %s %s %s", nextID, hx(nm.name), hx(nm.sk), mklist(nm.allow), hx(nm.owner)))
			if nm.live < 0 {
				nm.live, nm.busy = nextID, false
			}
			nextID++
		}
		probe := func(nm *npxName) {
			if rng.Intn(2) == 0 {
				e("reg " + hx(nm.name))
			} else {
				e(fmt.Sprintf("precheck %s %s", hx(nm.name), hx(goodUser(nm))))
			}
		}
		release := func(nm *npxName, id int) {
			e(fmt.Sprintf("release %d %s", id, pick(rng, []string{"ok", "ok", "err"})))
			parkedTotal -= nm.parked
			nm.parked = 0
		}
		steps := make([]int, k)
		for i := range steps {
			steps[i] = 6 + rng.Intn(8)
		}
		remaining := k
		for remaining > 0 {
			i := rng.Intn(k)
			if steps[i] == 0 {
				continue
			}
			steps[i]--
			if steps[i] == 0 {
				remaining--
			}
			nm := names[i]
			r := rng.Intn(100)
			switch {
			case len(nm.zombies) > 0 && r < 18: // the owner of a closed proxy answers at last
				id := nm.zombies[0]
				nm.zombies = nm.zombies[1:]
				release(nm, id)
			case nm.live < 0 && !nm.everUsed:
				nm.everUsed = true
				if r < 85 {
					run(nm)
				} else {
					visit(nm, true) // never registered
				}
			case nm.live < 0: // closed: what do the parties see now?
				switch {
				case r < 40:
					visit(nm, true)
				case r < 55:
					probe(nm)
				case r < 90:
					run(nm)
				default:
					visit(nm, false)
				}
			case !nm.busy:
				switch {
				case r < 50:
					visit(nm, true)
					nm.busy = true
				case r < 68:
					e(fmt.Sprintf("close %d", nm.live))
					if rng.Intn(5) == 0 {
						e(fmt.Sprintf("close %d", nm.live))
					}
					nm.live = -1
				case r < 74:
					run(nm) // repeated
				case r < 84:
					probe(nm)
				default:
					visit(nm, false)
				}
			default: // the goroutine is inside GetWorkConnFromPool
				switch {
				case r < 42:
					e(fmt.Sprintf("close %d", nm.live))
					nm.zombies = append(nm.zombies, nm.live)
					nm.live, nm.busy = -1, false
					// most often the parties act at once
					for j := rng.Intn(3); j > 0; j-- {
						switch rng.Intn(4) {
						case 0:
							probe(nm)
						case 1:
							run(nm)
						default:
							visit(nm, true)
							if nm.live >= 0 && !nm.busy {
								nm.busy = true
							}
						}
					}
				case r < 62:
					release(nm, nm.live)
					nm.busy = false
				case r < 72 && parkedTotal < 2 && parkedRound < 2:
					visit(nm, true) // waits on the sid channel
					nm.parked++
					parkedTotal++
					parkedRound++
				case r < 78:
					run(nm)
				case r < 88:
					probe(nm)
				default:
					visit(nm, false)
				}
			}
		}
		// some owners answer late, some never
		for _, nm := range names {
			if nm.live >= 0 && nm.busy && rng.Intn(2) == 0 {
				release(nm, nm.live)
			}
			for _, z := range nm.zombies {
				if rng.Intn(2) == 0 {
					release(nm, z)
				}
			}
		}
		for _, nm := range names {
			e("reg " + hx(nm.name))
		}
		e("settle")
		for _, vid := range vids {
			e(fmt.Sprintf("out %d", vid))
		}
	}
	emit("reset")
}

func init() { register(&Engine{Name: "natpx", Gen: npxGen, Exec: npxExec}) }
