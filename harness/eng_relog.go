// Engine "relog" (property C12, client half): the REAL client.Service (frpc's login loop, client/service.go) against a
// scripted raw server that answers each Login as the script says and cuts accepted sessions again.  Observed: the run
// id every Login carries, and the run id of the work connection the client opens for each accepted session.
//
//	rlstart <id> <items>   start a scenario in the background; items (comma separated), one per incoming Login:
//	                         a<hx>  accept: LoginResp{RunID: <hx>}, ask for one work connection, cut the connection
//	                         r      refuse: LoginResp{Error}, no run id (what frps sends), close
//	                         R<hx>  refuse: LoginResp{Error, RunID: <hx>}, close
//	                         x      close the connection without an answer
//	                         g      answer with bytes that are no frame of the protocol, close => ok
//	rlwait <id>            => ids:<hx>,…;work:<hx>|-,…[;noconnect]
//	                          ids: Login.RunID of every login in order; work: NewWorkConn.RunID per accepted item
//	                          ("-" = no work connection arrived within the bound); noconnect = a login did not come
//
// frpc retries a failed login after 1 s, 2 s, … and a lost session after about 0.2 s (client/service.go); scenarios run
// concurrently, each has its own listener and its own Service.  Every wait is bounded.
package main

import (
	"context"
	"fmt"
	"math/rand"
	"net"
	"strings"
	"sync"
	"time"

	"github.com/fatedier/frp/client"
	v1 "github.com/fatedier/frp/pkg/config/v1"
	"github.com/fatedier/frp/pkg/msg"
	netpkg "github.com/fatedier/frp/pkg/util/net"
	"github.com/fatedier/frp/pkg/util/version"
)

const relogToken = "relog-token"

type relogRun struct {
	done chan struct{}
	res  string
}

var (
	relogQuiet sync.Once
	relogMu    sync.Mutex
	relogRuns  = map[string]*relogRun{}
)

type relogArrival struct {
	conn net.Conn
	m    msg.Message
}

func relogScenario(items []string) string {
	l, err := net.Listen("tcp", "127.0.0.1:0")
	if err != nil {
		return "infra-listen"
	}
	defer l.Close()
	cfg := &v1.ClientCommonConfig{}
	cfg.ServerAddr = "127.0.0.1"
	cfg.ServerPort = l.Addr().(*net.TCPAddr).Port
	cfg.Auth.Token = relogToken
	f := false
	cfg.Transport.TCPMux = &f
	cfg.Transport.TLS.Enable = &f
	cfg.Transport.HeartbeatInterval = -1
	cfg.LoginFailExit = &f
	cfg.Complete()
	svc, err := client.NewService(client.ServiceOptions{Common: cfg})
	if err != nil {
		return "infra-newservice"
	}
	ctx, cancel := context.WithCancel(context.Background())
	defer cancel()
	go func() { _ = svc.Run(ctx) }()
	defer svc.Close()

	logins := make(chan relogArrival, 16)
	works := make(chan relogArrival, 16)
	stop := make(chan struct{})
	defer close(stop)
	go func() {
		for {
			conn, err := l.Accept()
			if err != nil {
				return
			}
			go func() {
				_ = conn.SetReadDeadline(time.Now().Add(3 * time.Second))
				m, err := msg.ReadMsg(conn)
				if err != nil {
					conn.Close()
					return
				}
				_ = conn.SetReadDeadline(time.Time{})
				ch := logins
				if _, ok := m.(*msg.NewWorkConn); ok {
					ch = works
				} else if _, ok := m.(*msg.Login); !ok {
					conn.Close()
					return
				}
				select {
				case ch <- relogArrival{conn, m}:
				case <-stop:
					conn.Close()
				}
			}()
		}
	}()

	ids, work := []string{}, []string{}
	for _, it := range items {
		var a relogArrival
		select {
		case a = <-logins:
		case <-time.After(8 * time.Second):
			return "ids:" + strings.Join(ids, ",") + ";work:" + strings.Join(work, ",") + ";noconnect"
		}
		ids = append(ids, hx(a.m.(*msg.Login).RunID))
		conn := a.conn
		switch it[0] {
		case 'r':
			_ = msg.WriteMsg(conn, &msg.LoginResp{Version: version.Full(), Error: "refused by script"})
			conn.Close()
		case 'R':
			_ = msg.WriteMsg(conn, &msg.LoginResp{Version: version.Full(), Error: "refused by script", RunID: unhx(it[1:])})
			conn.Close()
		case 'x':
			conn.Close()
		case 'g':
			_, _ = conn.Write([]byte("\x00\x00\x00garbage, not a frame of the protocol\n"))
			conn.Close()
		case 'a':
			_ = msg.WriteMsg(conn, &msg.LoginResp{Version: version.Full(), RunID: unhx(it[1:])})
			got := "-"
			if rw, err := netpkg.NewCryptoReadWriter(conn, []byte(relogToken)); err == nil {
				// drain what the client sends on the control connection
				go func() {
					for {
						if _, err := msg.ReadMsg(rw); err != nil {
							return
						}
					}
				}()
				if msg.WriteMsg(rw, &msg.ReqWorkConn{}) == nil {
					select {
					case wa := <-works:
						got = hx(wa.m.(*msg.NewWorkConn).RunID)
						wa.conn.Close()
					case <-time.After(2 * time.Second):
					}
				}
			}
			work = append(work, got)
			conn.Close()
		default:
			conn.Close()
		}
		// work connections that arrive late belong to a session that is over
	drain:
		for {
			select {
			case wa := <-works:
				wa.conn.Close()
			default:
				break drain
			}
		}
	}
	return "ids:" + strings.Join(ids, ",") + ";work:" + strings.Join(work, ",")
}

func relogExec(tok []string) string {
	switch tok[0] {
	case "reset":
		return "-"
	case "rlstart":
		if len(tok) < 3 {
			return "badop"
		}
		relogQuiet.Do(quietFrp) // frpc logs refused logins on the console (stdout carries the trace)
		r := &relogRun{done: make(chan struct{})}
		relogMu.Lock()
		relogRuns[tok[1]] = r
		relogMu.Unlock()
		items := strings.Split(tok[2], ",")
		go func() {
			defer close(r.done)
			defer func() {
				if p := recover(); p != nil {
					r.res = "PANIC:" + hx(fmt.Sprint(p))
				}
			}()
			r.res = relogScenario(items)
		}()
		return "ok"
	case "rlwait":
		relogMu.Lock()
		r := relogRuns[tok[1]]
		delete(relogRuns, tok[1])
		relogMu.Unlock()
		if r == nil {
			return "unknown"
		}
		select {
		case <-r.done:
			return r.res
		case <-time.After(60 * time.Second):
			return "timeout"
		}
	}
	return "badop"
}

// run ids a server may hand out: frps's 16 hex digits, and what another implementation might (short, long, blanks)
func relogGenID(rng *rand.Rand) string {
	switch rng.Intn(8) {
	case 0:
		return "a"
	case 1:
		return strings.Repeat("f", 64)
	case 2:
		return "Run ID 1"
	case 3:
		return "" // an accepted login without run id: the next login is a fresh one
	}
	b := make([]byte, 8)
	rng.Read(b)
	return fmt.Sprintf("%x", b)
}

// histories: accepted logins interleaved with refusals (with and without a run id in the answer), dropped connections
// and garbage, at most two failures in a row (frpc waits 1 s, then 2 s); the server echoes the presented id on a
// re-login (what frps does) or assigns another one
func relogGen(rng *rand.Rand, n int, emit func(string)) {
	k := n / 2
	if k < 1 {
		k = 1
	}
	for i := 0; i < k; i++ {
		items := []string{}
		cur := ""
		fails, total := 0, 0
		m := 3 + rng.Intn(3)
		if i%4 == 0 {
			m = 3
		}
		for j := 0; j < m; j++ {
			r := rng.Intn(10)
			if j == m-1 || fails >= 2 || total >= 2 || (j == 0 && rng.Intn(5) != 0) {
				r = 0 // the last login is accepted; mostly the first one too (the client has an id to keep)
			}
			if i < 4 {
				// the first scenarios: accept, one failure of each class, accept
				r = 0
				if j == 1 {
					r = 5 + i
				}
			}
			switch {
			case r < 5:
				id := cur
				if id == "" || rng.Intn(4) == 0 {
					id = relogGenID(rng)
					for i < 4 && id == "" {
						id = relogGenID(rng)
					}
				}
				items = append(items, "a"+hx(id))
				cur = id
				fails = 0
			case r == 5 || r == 9:
				items = append(items, "r")
				fails, total = fails+1, total+1
			case r == 6:
				items = append(items, "R"+hx(pick(rng, []string{"", "other", cur})))
				fails, total = fails+1, total+1
			case r == 7:
				items = append(items, "x")
				fails, total = fails+1, total+1
			default:
				items = append(items, "g")
				fails, total = fails+1, total+1
			}
		}
		emit(fmt.Sprintf("rlstart s%d %s", i, strings.Join(items, ",")))
	}
	for i := 0; i < k; i++ {
		emit(fmt.Sprintf("rlwait s%d", i))
	}
}

func init() { register(&Engine{Name: "relog", Gen: relogGen, Exec: relogExec}) }
