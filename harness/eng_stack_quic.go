package main

// Engine "stack" (C01), op `qclose`: closing a QUIC work connection. A REAL quic-go connection on loopback (configured
// as frps / frpc configure theirs), a real stream on it wrapped at both ends by frp's net.Conn wrapper
// (netpkg.QuicStreamToNetConn — what every control / work connection is when transport.protocol = quic).
//
//	qclose side=<dial|acc> n=<bytes> pause=<ms> seed=
//	   The `side` end writes n bytes (less than the stream's initial flow-control window, so nothing needs to be read for
//	   the write to finish) and calls Close() on the wrapper at once; the other end reads nothing until `pause` ms after
//	   that Close returned (a slow / paused final hop: frps blocked on a user that does not read), then reads to the end.
//	   The stream calls the wrapper made on the writer's quic.Stream are recorded until the reader is done.
//	   => calls=<CancelRead|Close|CancelWrite,…>;got=<bytes>;eof=<0|1>;eq=<0|1>
import (
	"bytes"
	"context"
	"crypto/tls"
	"fmt"
	"io"
	"net"
	"strings"
	"sync"
	"time"

	quic "github.com/quic-go/quic-go"

	"github.com/fatedier/frp/pkg/transport"
	netpkg "github.com/fatedier/frp/pkg/util/net"
)

type stkRecStream struct {
	quic.Stream
	mu    sync.Mutex
	calls []string
}

func (s *stkRecStream) note(c string) {
	s.mu.Lock()
	s.calls = append(s.calls, c)
	s.mu.Unlock()
}

func (s *stkRecStream) Close() error                       { s.note("Close"); return s.Stream.Close() }
func (s *stkRecStream) CancelRead(c quic.StreamErrorCode)  { s.note("CancelRead"); s.Stream.CancelRead(c) }
func (s *stkRecStream) CancelWrite(c quic.StreamErrorCode) { s.note("CancelWrite"); s.Stream.CancelWrite(c) }

func (s *stkRecStream) snapshot() string {
	s.mu.Lock()
	defer s.mu.Unlock()
	return strings.Join(s.calls, ",")
}

type stkQuicPair struct {
	dial, acc quic.Connection
}

var stkQuic *stkQuicPair

func stkGetQuic() (*stkQuicPair, error) {
	if stkQuic != nil {
		return stkQuic, nil
	}
	stls, err := transport.NewServerTLSConfig("", "", "")
	if err != nil {
		return nil, err
	}
	stls.NextProtos = []string{"frp"}
	qcfg := func() *quic.Config {
		return &quic.Config{MaxIdleTimeout: 30 * time.Second, MaxIncomingStreams: 100000, KeepAlivePeriod: 10 * time.Second}
	}
	ln, err := quic.ListenAddr("127.0.0.1:0", stls, qcfg())
	if err != nil {
		return nil, err
	}
	accC := make(chan quic.Connection, 1)
	go func() {
		c, err := ln.Accept(context.Background())
		if err != nil {
			c = nil
		}
		accC <- c
	}()
	ctx, cancel := context.WithTimeout(context.Background(), 3*time.Second)
	defer cancel()
	ctls := &tls.Config{InsecureSkipVerify: true, NextProtos: []string{"frp"}}
	d, err := quic.DialAddr(ctx, ln.Addr().String(), ctls, qcfg())
	if err != nil {
		return nil, err
	}
	select {
	case a := <-accC:
		if a == nil {
			return nil, fmt.Errorf("accept")
		}
		stkQuic = &stkQuicPair{dial: d, acc: a}
		return stkQuic, nil
	case <-time.After(3 * time.Second):
		return nil, fmt.Errorf("accept timeout")
	}
}

func stkQCloseOnce(kv map[string]string) (string, bool) {
	n, pause, seed := atoi(kv["n"]), atoi(kv["pause"]), int64(atoi(kv["seed"]))
	if n < 1 || n > 384*1024 {
		return "badn", true
	}
	qp, err := stkGetQuic()
	if err != nil {
		return "noquic", false
	}
	from, to := qp.dial, qp.acc
	if kv["side"] == "acc" {
		from, to = to, from
	}
	ctx, cancel := context.WithTimeout(context.Background(), 2*time.Second)
	defer cancel()
	ws, err := from.OpenStreamSync(ctx)
	if err != nil {
		return "noopen", false
	}
	rec := &stkRecStream{Stream: ws}
	var w net.Conn = netpkg.QuicStreamToNetConn(rec, from)
	payload := stkPayload(n, "rand", seed, false)
	wdone := make(chan error, 1)
	go func() {
		_, err := w.Write(payload)
		if err == nil {
			err = w.Close()
		}
		wdone <- err
	}()
	rs, err := to.AcceptStream(ctx)
	if err != nil {
		return "noaccept", false
	}
	r := netpkg.QuicStreamToNetConn(rs, to)
	defer r.Close()
	select {
	case err := <-wdone:
		if err != nil {
			return "werr", false
		}
	case <-time.After(2 * time.Second):
		return "wstuck", false
	}
	// the writing end is done and has closed; the reading end has not read a byte yet
	time.Sleep(time.Duration(pause) * time.Millisecond)
	_ = r.SetReadDeadline(time.Now().Add(2 * time.Second))
	got, rerr := io.ReadAll(r)
	eof := rerr == nil
	eq := bytes.Equal(got, payload)
	return fmt.Sprintf("calls=%s;got=%d;eof=%d;eq=%d", rec.snapshot(), len(got), stkBit(eof), stkBit(eq)), eof && eq
}

func stkQCloseOp(kv map[string]string) string {
	r, ok := stkQCloseOnce(kv)
	if !ok && !strings.HasPrefix(r, "calls=") {
		r, _ = stkQCloseOnce(kv) // set-up trouble (loaded machine?): once more
	}
	return r
}
