package main

import (
	"context"
	"fmt"
	"io"
	"math/rand"
	"net"
	"sort"
	"strings"
	"sync"
	"time"

	libio "github.com/fatedier/golib/io"

	cproxy "github.com/fatedier/frp/client/proxy"
	v1 "github.com/fatedier/frp/pkg/config/v1"
	"github.com/fatedier/frp/pkg/msg"
	"github.com/fatedier/frp/pkg/proto/udp"
)

// upx op of engine "udp" (property C03): the CLIENT side of a udp proxy (client/proxy/udp.go: proxy.NewProxy(udp).Run /
// InWorkConn / Close — its workConnReaderFn, workConnSenderFn, heartbeatFn and udp.Forwarder) with a scripted work
// connection; the harness plays frps on the far end (same wrappers as frps) and the backend.  The stream towards the
// proxy is TYPED: UDPPackets for user addresses interleaved with every other message type of the protocol, and the
// harness looks at EVERYTHING the backend receives, not only at what it expects.
//
//	upx ps=<ps> enc=<0|1> comp=<0|1> s=<tok,tok,...>
//	  d<u>.<len>.<seed>  a UDPPacket of user address u; the backend answers; wait for the backend and for the answer
//	  D<u>.<len>.<seed>  the same without waiting
//	  c<Type>            a message of that type (Ping, Pong, NatHoleResp, ReqWorkConn, …) written with the real msg.WriteMsg
//	  n                  a UDPPacket frame with no content and no address (`{}` under type byte 'u')
//	  => B=<u.seq.len.hash,...>;X=<n>;R=<u.seq.len.hash,...>;socks=<n>;bad=<n>
//	     B = datagrams of at least 4 bytes the backend got, X = the OTHER datagrams it got (shorter than any payload of
//	     the script: nobody sent them), R = UDPPackets read back on the far end, socks = backend-side source ports,
//	     bad = packets read back with a wrong address tag / undecodable content
//
// seq = index of the token in the script; payloads as in `tunnel`; the backend answers tunnelReply(payload) to every
// datagram of at least 4 bytes and nothing to the others.
var upxCtl = map[string]func() msg.Message{
	"Ping":               func() msg.Message { return &msg.Ping{PrivilegeKey: "k", Timestamp: 5} },
	"PingEmpty":          func() msg.Message { return &msg.Ping{} },
	"Pong":               func() msg.Message { return &msg.Pong{Error: "e"} },
	"Login":              func() msg.Message { return &msg.Login{Version: "0.1", RunID: "r", PoolCount: 1} },
	"LoginResp":          func() msg.Message { return &msg.LoginResp{Version: "0.1", RunID: "r"} },
	"NewProxy":           func() msg.Message { return &msg.NewProxy{ProxyName: "p", ProxyType: "udp", RemotePort: 7} },
	"NewProxyResp":       func() msg.Message { return &msg.NewProxyResp{ProxyName: "p", RemoteAddr: ":7"} },
	"CloseProxy":         func() msg.Message { return &msg.CloseProxy{ProxyName: "p"} },
	"NewWorkConn":        func() msg.Message { return &msg.NewWorkConn{RunID: "r"} },
	"ReqWorkConn":        func() msg.Message { return &msg.ReqWorkConn{} },
	"StartWorkConn":      func() msg.Message { return &msg.StartWorkConn{ProxyName: "p", SrcAddr: "1.2.3.4", SrcPort: 5} },
	"NewVisitorConn":     func() msg.Message { return &msg.NewVisitorConn{ProxyName: "p", SignKey: "s"} },
	"NewVisitorConnResp": func() msg.Message { return &msg.NewVisitorConnResp{ProxyName: "p"} },
	"NatHoleVisitor":     func() msg.Message { return &msg.NatHoleVisitor{TransactionID: "t", ProxyName: "p"} },
	"NatHoleClient":      func() msg.Message { return &msg.NatHoleClient{TransactionID: "t", ProxyName: "p", Sid: "s"} },
	"NatHoleResp":        func() msg.Message { return &msg.NatHoleResp{TransactionID: "t", Sid: "s", Protocol: "quic"} },
	"NatHoleSid":         func() msg.Message { return &msg.NatHoleSid{TransactionID: "t", Sid: "s", Response: true} },
	"NatHoleReport":      func() msg.Message { return &msg.NatHoleReport{Sid: "s", Success: true} },
}

func upxCtlNames() []string {
	var ns []string
	for k := range upxCtl {
		ns = append(ns, k)
	}
	sort.Strings(ns)
	return ns
}

func runUpx(ps int, enc, comp bool, script []string) (string, bool) {
	bc, err := net.ListenUDP("udp", &net.UDPAddr{IP: net.IPv4(127, 0, 0, 1)})
	if err != nil {
		panic(err)
	}
	_ = bc.SetReadBuffer(4 << 20)
	var mu sync.Mutex
	var bLog []tentry
	extra := 0
	src := map[int]*net.UDPAddr{}
	go func() {
		buf := make([]byte, 70000)
		for {
			n, from, err := bc.ReadFromUDP(buf)
			if err != nil {
				return
			}
			p := append([]byte(nil), buf[:n]...)
			mu.Lock()
			src[from.Port] = from
			if n >= 4 {
				bLog = append(bLog, entryOf(p))
			} else {
				extra++
			}
			mu.Unlock()
			if n >= 4 {
				_, _ = bc.WriteToUDP(tunnelReply(p), from)
			}
		}
	}()

	pc := &v1.UDPProxyConfig{}
	pc.Name = "c03upx"
	pc.Type = "udp"
	pc.LocalIP = "127.0.0.1"
	pc.LocalPort = bc.LocalAddr().(*net.UDPAddr).Port
	pc.Transport.UseEncryption = enc
	pc.Transport.UseCompression = comp
	pc.Complete("")
	ccfg := &v1.ClientCommonConfig{UDPPacketSize: int64(ps)}
	ccfg.Auth.Token = pxToken
	pxy := cproxy.NewProxy(context.Background(), pc, ccfg, nil, nil)
	if pxy == nil {
		panic("no udp proxy factory")
	}
	if err := pxy.Run(); err != nil {
		panic(err)
	}
	ln, err := net.Listen("tcp", "127.0.0.1:0")
	if err != nil {
		panic(err)
	}
	far, err := net.Dial("tcp", ln.Addr().String())
	if err != nil {
		panic(err)
	}
	near, err := ln.Accept()
	if err != nil {
		panic(err)
	}
	// as frps wraps the work connection of a udp proxy (server/proxy/udp.go Run)
	var rw io.ReadWriteCloser = far
	if enc {
		rw, err = libio.WithEncryption(rw, []byte(pxToken))
		if err != nil {
			panic(err)
		}
	}
	if comp {
		rw = libio.WithCompression(rw)
	}
	var rLog []tentry
	bad := 0
	eofCh := make(chan struct{})
	go func() {
		defer close(eofCh)
		for {
			raw, err := msg.ReadMsg(rw)
			if err != nil {
				return
			}
			m, ok := raw.(*msg.UDPPacket)
			if !ok {
				continue // the proxy's heartbeat Ping
			}
			b, derr := udp.GetContent(m)
			e := entryOf(b)
			mu.Lock()
			if derr != nil || m.LocalAddr != nil || m.RemoteAddr == nil || m.RemoteAddr.Port != 40000+e.u || !m.RemoteAddr.IP.IsLoopback() {
				bad++
			}
			rLog = append(rLog, e)
			mu.Unlock()
		}
	}()
	pxy.InWorkConn(near, &msg.StartWorkConn{ProxyName: "c03upx"})

	expB, expR, expX := 0, 0, 0
	missing := false
	patience := 400 * time.Millisecond
	syncUp := func() {
		ok := pxWait(func() bool {
			mu.Lock()
			defer mu.Unlock()
			return len(bLog) >= expB && len(rLog) >= expR && extra >= expX
		}, patience)
		if !ok {
			mu.Lock()
			if len(bLog) < expB || len(rLog) < expR {
				missing = true
			}
			// a control message that does not turn into a datagram is not waited for again
			expB, expR, expX = len(bLog), len(rLog), extra
			mu.Unlock()
			patience = 60 * time.Millisecond
		}
	}
	for i, t := range script {
		switch t[0] {
		case 'd', 'D':
			f := strings.Split(t[1:], ".")
			u, ln, seed := atoi(f[0]), atoi(f[1]), atoi(f[2])
			expB++
			expR++
			_ = msg.WriteMsg(rw, udp.NewUDPPacket(tunnelPayload(u, i, ln, seed), nil, pxUserAddr(u)))
			if t[0] == 'd' {
				syncUp()
			}
		case 'c':
			mk, ok := upxCtl[t[1:]]
			if !ok {
				panic("bad upx control type " + t)
			}
			expX++
			_ = msg.WriteMsg(rw, mk())
		case 'n':
			expX++
			_, _ = rw.Write(udpRawFrame("", nil, nil))
		default:
			panic("bad upx token " + t)
		}
	}
	syncUp()
	time.Sleep(3 * time.Millisecond) // let a duplicate / a stray datagram show up

	mu.Lock()
	out := fmt.Sprintf("B=%s;X=%d;R=%s;socks=%d;bad=%d", fmtEntries(append([]tentry(nil), bLog...)), extra,
		fmtEntries(append([]tentry(nil), rLog...)), len(src), bad)
	ports := src
	wrong := bad > 0 || len(bLog) > expB
	mu.Unlock()

	pxy.Close()
	far.Close()
	ln.Close()
	select {
	case <-eofCh:
	case <-time.After(time.Second):
	}
	time.Sleep(time.Millisecond)
	for _, a := range ports { // the per-user sockets of the Forwarder leave when a datagram arrives on the closed channel
		_, _ = bc.WriteToUDP([]byte{0}, a)
	}
	time.Sleep(time.Millisecond)
	bc.Close()
	return out, missing && !wrong
}

func upxExec(tok []string) string {
	ps := atoi(strings.TrimPrefix(tok[1], "ps="))
	enc := tok[2] == "enc=1"
	comp := tok[3] == "comp=1"
	var script []string
	if s := strings.TrimPrefix(tok[4], "s="); s != "" {
		script = strings.Split(s, ",")
	}
	res, missing := runUpx(ps, enc, comp, script)
	if udpRerunWorthIt(missing) {
		res, missing = runUpx(ps, enc, comp, script)
		udpRerunDone(missing)
	}
	return res
}

// upxGen: traffic of 1-3 user addresses (single datagrams and bursts) with control messages of every type of the
// protocol at arbitrary points: single ones, runs of one type, runs of all types, in front of the first datagram,
// between a burst and its collection, behind the last datagram.
func upxGen(rng *rand.Rand, n int, emit func(string)) {
	names := upxCtlNames()
	for i := 0; i < n/300+6; i++ {
		ps, maxLen := pxGenSizes(rng)
		nu := 1 + rng.Intn(3)
		ntok := 6 + rng.Intn(30)
		ctlW := pick(rng, []int{0, 10, 25, 50})
		var toks []string
		dg := func(c string) {
			toks = append(toks, fmt.Sprintf("%s%d.%d.%d", c, rng.Intn(nu), sudpGenLen(rng, ps, maxLen), rng.Intn(1<<30)))
		}
		if i == 1 { // every type once, datagrams in between
			for _, nm := range names {
				toks = append(toks, "c"+nm)
				if rng.Intn(2) == 0 {
					dg("d")
				}
			}
		}
		for len(toks) < ntok {
			r := rng.Intn(100)
			switch {
			case r < ctlW:
				toks = append(toks, "c"+pick(rng, names))
			case r < ctlW+3:
				toks = append(toks, "n")
			case r < ctlW+3+4: // a run of one type (a periodic keep-alive)
				nm := pick(rng, []string{"Ping", "PingEmpty", "Pong", pick(rng, names)})
				for j, k := 0, 2+rng.Intn(4); j < k; j++ {
					toks = append(toks, "c"+nm)
				}
			case r < ctlW+3+4+20:
				dg("D")
			default:
				dg("d")
			}
		}
		enc, comp := i>>1&1, i&1
		if i >= 4 {
			enc, comp = rng.Intn(2), rng.Intn(2)
		}
		emit(fmt.Sprintf("upx ps=%d enc=%d comp=%d s=%s", ps, enc, comp, strings.Join(toks, ",")))
	}
}
