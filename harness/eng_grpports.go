package main

import (
	"bufio"
	"fmt"
	"math/rand"
	"net"
	"sort"
	"strconv"
	"strings"
	"sync"
	"time"

	"github.com/fatedier/frp/pkg/config/types"
	"github.com/fatedier/frp/pkg/util/verifhook"
	"github.com/fatedier/frp/server/group"
	"github.com/fatedier/frp/server/ports"
)

// Engine "grpports" (property C13): the real group.TCPGroupCtl over the real ports.Manager on a block of
// loopback ports, with the OTHER owners a port manager has: further groups, plain tcp proxies (the
// Acquire / net.Listen / Release sequence of TCPProxy.Run and Close) and foreign processes.  Proxy names are
// REUSED, so that the manager's reserved-port path is part of every history.
//
//	reset <k,k,…>                         allowed ports (block-relative)                       => -
//	join <m> <g> <key> <port> <grab>      TCPGroupCtl.Listen(m, g, key, 127.0.0.1, port)        => ok:<k> | err:<class> | err:listen:<k> | noref
//	take <n> <port> <grab>                plain proxy: Acquire(n, port), Listen, (Release)      => the same
//	close <name>                          group member: its listener's Close; plain: Close+Release => - | nomember
//	squat <port> / unsquat <port>         another process binds / frees the port               => ok | busy | - | noref
//	conn <port>                           a user connection                                    => to:<name> | squat | refused | stuck | noref
//	view                                  => free=<k,…>;used=<k>=<owner>,…;bound=<k,…>   (manager tables + OS probe of the block)
//
// port: 0 = server chooses, k = base+k, @<name> = the real port last granted to that name ("the operator pins
// the port frps had chosen").  grab=1: another process binds the acquired port between Acquire and net.Listen
// (gate tcpgroup.listen.acquired for groups).
const gppK = 10

type gppMember struct {
	name  string
	group bool
	ln    net.Listener
	port  int
}

type gppWorld struct {
	base    int
	pm      *ports.Manager
	ctl     *group.TCPGroupCtl
	live    map[string]*gppMember
	squats  map[int]net.Listener
	last    map[string]int
	mu      sync.Mutex
	grabFor map[string]bool
}

var gppW *gppWorld

func gppCloseWorld() {
	w := gppW
	if w == nil {
		return
	}
	verifhook.Set(nil)
	for _, m := range w.live {
		func() {
			defer func() { recover() }()
			m.ln.Close()
		}()
	}
	for _, s := range w.squats {
		s.Close()
	}
	gppW = nil
}

func (w *gppWorld) foreignBind(p int) bool {
	l, err := net.Listen("tcp", "127.0.0.1:"+strconv.Itoa(p))
	if err != nil {
		return false
	}
	groupSquatServe(l)
	w.squats[p] = l
	return true
}

func gppReset(ents string) {
	gppCloseWorld()
	w := &gppWorld{live: map[string]*gppMember{}, squats: map[int]net.Listener{}, last: map[string]int{},
		grabFor: map[string]bool{}}
	w.base = groupPickBase()
	var allow []types.PortsRange
	for _, t := range strings.Split(ents, ",") {
		if t != "" {
			allow = append(allow, types.PortsRange{Single: w.base + atoi(t)})
		}
	}
	if len(allow) == 0 {
		// NewManager reads "no entry" as "every port": keep the block semantics with an entry outside the block
		allow = append(allow, types.PortsRange{Single: w.base + gppK + 5})
	}
	w.pm = ports.NewManager("tcp", "127.0.0.1", allow)
	w.ctl = group.NewTCPGroupCtl(w.pm)
	gppW = w
	verifhook.Set(func(point string, keys []string) {
		if point != "tcpgroup.listen.acquired" || len(keys) != 1 {
			return
		}
		w.mu.Lock()
		g := w.grabFor[keys[0]]
		delete(w.grabFor, keys[0])
		w.mu.Unlock()
		if !g {
			return
		}
		_, used, _ := w.pm.VerifDump()
		for p, n := range used {
			if n == keys[0] {
				w.foreignBind(p)
			}
		}
	})
}

func (w *gppWorld) port(t string) (int, bool) {
	if strings.HasPrefix(t, "@") {
		p, ok := w.last[t[1:]]
		return p, ok
	}
	k := atoi(t)
	if k == 0 {
		return 0, true
	}
	return w.base + k, true
}

func (w *gppWorld) errClass(err error) string {
	switch err {
	case group.ErrGroupAuthFailed:
		return "err:grpauth"
	case group.ErrGroupDifferentPort:
		return "err:grpport"
	case group.ErrGroupParamsInvalid:
		return "err:grpparams"
	case ports.ErrPortAlreadyUsed:
		return "err:used"
	case ports.ErrPortNotAllowed:
		return "err:notallowed"
	case ports.ErrPortUnAvailable:
		return "err:unavailable"
	case ports.ErrNoAvailablePort:
		return "err:noavailable"
	}
	if oe, ok := err.(*net.OpError); ok {
		if ta, ok := oe.Addr.(*net.TCPAddr); ok {
			return "err:listen:" + strconv.Itoa(ta.Port-w.base)
		}
		return "err:listen"
	}
	return "err:other:" + hx(err.Error())
}

func gppExec(tok []string) string {
	if tok[0] == "reset" {
		gppReset(tok[1])
		return "-"
	}
	w := gppW
	if w == nil {
		return "noworld"
	}
	switch tok[0] {
	case "join":
		m, g, key := tok[1], tok[2], tok[3]
		port, ok := w.port(tok[4])
		if !ok {
			return "noref"
		}
		if _, liveName := w.live[m]; liveName {
			return "err:exists" // proxy.Manager: a live name is refused before Run
		}
		if tok[5] == "1" {
			w.mu.Lock()
			w.grabFor[m] = true
			w.mu.Unlock()
		}
		ln, rp, err := w.ctl.Listen(m, g, key, "127.0.0.1", port)
		w.mu.Lock()
		delete(w.grabFor, m)
		w.mu.Unlock()
		if err != nil {
			return w.errClass(err)
		}
		groupServeMember(m, ln)
		w.live[m] = &gppMember{name: m, group: true, ln: ln, port: rp}
		w.last[m] = rp
		return "ok:" + strconv.Itoa(rp-w.base)
	case "take":
		n := tok[1]
		port, ok := w.port(tok[2])
		if !ok {
			return "noref"
		}
		if _, liveName := w.live[n]; liveName {
			return "err:exists"
		}
		// TCPProxy.Run without a group
		rp, err := w.pm.Acquire(n, port)
		if err != nil {
			return w.errClass(err)
		}
		if tok[3] == "1" {
			w.foreignBind(rp)
		}
		ln, err := net.Listen("tcp", net.JoinHostPort("127.0.0.1", strconv.Itoa(rp)))
		if err != nil {
			w.pm.Release(rp)
			return "err:listen:" + strconv.Itoa(rp-w.base)
		}
		groupServeMember(n, ln)
		w.live[n] = &gppMember{name: n, ln: ln, port: rp}
		w.last[n] = rp
		return "ok:" + strconv.Itoa(rp-w.base)
	case "close":
		mb := w.live[tok[1]]
		if mb == nil {
			return "nomember"
		}
		delete(w.live, tok[1])
		mb.ln.Close()
		if !mb.group {
			w.pm.Release(mb.port) // TCPProxy.Close
		}
		return "-"
	case "squat":
		p, ok := w.port(tok[1])
		if !ok {
			return "noref"
		}
		if _, have := w.squats[p]; have || !w.foreignBind(p) {
			return "busy"
		}
		return "ok"
	case "unsquat":
		p, ok := w.port(tok[1])
		if !ok {
			return "noref"
		}
		if s, have := w.squats[p]; have {
			s.Close()
			delete(w.squats, p)
		}
		return "-"
	case "conn":
		p, ok := w.port(tok[1])
		if !ok {
			return "noref"
		}
		c, err := net.DialTimeout("tcp", "127.0.0.1:"+strconv.Itoa(p), time.Second)
		if err != nil {
			return "refused"
		}
		defer c.Close()
		c.SetReadDeadline(time.Now().Add(2 * time.Second))
		line, err := bufio.NewReader(c).ReadString('\n')
		if err != nil {
			if ne, ok := err.(net.Error); ok && ne.Timeout() {
				return "stuck"
			}
			return "closed"
		}
		line = strings.TrimSpace(line)
		if line == "SQUAT" {
			return "squat"
		}
		return "to:" + line
	case "view":
		free, used, _ := w.pm.VerifDump()
		var fs, us, bs []string
		for _, p := range free {
			if p >= w.base && p < w.base+gppK {
				fs = append(fs, strconv.Itoa(p-w.base))
			}
		}
		var ks []int
		for p := range used {
			ks = append(ks, p)
		}
		sort.Ints(ks)
		for _, p := range ks {
			us = append(us, strconv.Itoa(p-w.base)+"="+used[p])
		}
		for k := 0; k < gppK; k++ {
			if l, err := net.Listen("tcp", "127.0.0.1:"+strconv.Itoa(w.base+k)); err != nil {
				bs = append(bs, strconv.Itoa(k))
			} else {
				l.Close()
			}
		}
		return "free=" + strings.Join(fs, ",") + ";used=" + strings.Join(us, ",") + ";bound=" + strings.Join(bs, ",")
	}
	return "badop"
}

// ---------------------------------------------------------------- generators

var gppNames = []string{"m1", "m2", "m3", "m4", "m5", "m6"}
var gppGroups = []string{"ga", "gb", "gc"}

// a port token: server-chosen, a number of the block, or the real port some name was granted last
func gppGenPort(rng *rand.Rand, zero int) string {
	switch r := rng.Intn(10); {
	case r < zero:
		return "0"
	case r < zero+(10-zero)/2:
		return strconv.Itoa(1 + rng.Intn(9))
	}
	return "@" + pick(rng, gppNames)
}

func gppGenAllow(rng *rand.Rand) string {
	if rng.Intn(3) > 0 {
		return "1,2,3,4,5,6,7,8"
	}
	// a small allow set: exhaustion ("iff some allowed port is free") is reached in both directions
	n := 1 + rng.Intn(4)
	ks := rng.Perm(8)[:n]
	sort.Ints(ks)
	var ts []string
	for _, k := range ks {
		ts = append(ts, strconv.Itoa(k+1))
	}
	return strings.Join(ts, ",")
}

func gppGrab(rng *rand.Rand) string {
	if rng.Intn(12) == 0 {
		return "1"
	}
	return "0"
}

// an episode of the life of one group with a server-chosen (or fixed) port among other owners: founded, maybe
// joined, dissolved member by member; meanwhile / afterwards some other owner — another group, a plain proxy,
// another process — takes a port by number (often the one just released) or by the server's choice; the group
// is created again by its former founder, by another former member or by a new name; every phase is followed by
// user connections and now and then by a dump of the manager
func gppGenEpisode(rng *rand.Rand, e func(string), in map[string]bool) {
	var outs []string
	for _, m := range gppNames {
		if !in[m] {
			outs = append(outs, m)
		}
	}
	if len(outs) < 2 {
		return
	}
	rng.Shuffle(len(outs), func(i, j int) { outs[i], outs[j] = outs[j], outs[i] })
	g := pick(rng, gppGroups)
	port := "0"
	if rng.Intn(4) == 0 {
		port = strconv.Itoa(1 + rng.Intn(8))
	}
	nm := 1 + rng.Intn(min(3, len(outs)-1))
	ms := outs[:nm]
	other := outs[nm]
	for _, m := range ms {
		e(fmt.Sprintf("join %s %s k %s 0", m, g, port))
	}
	e("conn @" + ms[0])
	leavers := append([]string{}, ms...)
	rng.Shuffle(len(leavers), func(i, j int) { leavers[i], leavers[j] = leavers[j], leavers[i] })
	if rng.Intn(4) == 0 {
		leavers = leavers[:len(leavers)-1] // the group keeps a member: its port must stay its own
	}
	for _, m := range leavers {
		e("close " + m)
	}
	if rng.Intn(3) == 0 {
		e("view")
	}
	for _, m := range leavers {
		in[m] = false
	}
	// somebody else comes for a port
	otherIn := true
	switch rng.Intn(6) {
	case 0, 1:
		e(fmt.Sprintf("join %s %s k @%s 0", other, g+"x", ms[0]))
	case 2:
		e(fmt.Sprintf("take %s @%s 0", other, ms[0]))
	case 3:
		e("squat @" + ms[0])
		otherIn = false
	case 4:
		e(fmt.Sprintf("take %s 0 0", other))
	default:
		otherIn = false
	}
	in[other] = in[other] || otherIn
	// the group again: its former founder, another former member, or somebody new
	var cands []string
	cands = append(cands, leavers...)
	if !otherIn {
		cands = append(cands, other)
	}
	if len(cands) > 0 {
		again := pick(rng, cands)
		e(fmt.Sprintf("join %s %s k %s %s", again, g, port, gppGrab(rng)))
		in[again] = true
		e("conn @" + again)
	}
	e("conn @" + ms[0])
	e("view")
	if rng.Intn(2) == 0 {
		e("unsquat @" + ms[0])
	}
}

func gppGen(rng *rand.Rand, n int, emit func(string)) {
	emitted := 0
	e := func(s string) { emit(s); emitted++ }
	for emitted < n {
		e("reset " + gppGenAllow(rng))
		in := map[string]bool{}
		for j := 0; j < 30+rng.Intn(50) && emitted < n; j++ {
			switch r := rng.Intn(20); {
			case r < 5:
				m := pick(rng, gppNames)
				key := "k"
				if rng.Intn(8) == 0 {
					key = "K"
				}
				e(fmt.Sprintf("join %s %s %s %s %s", m, pick(rng, gppGroups), key, gppGenPort(rng, 5), gppGrab(rng)))
				in[m] = true
			case r < 7:
				m := pick(rng, gppNames)
				e(fmt.Sprintf("take %s %s %s", m, gppGenPort(rng, 4), gppGrab(rng)))
				in[m] = true
			case r < 12:
				m := pick(rng, gppNames)
				e("close " + m)
				in[m] = false
			case r < 13:
				e("squat " + gppGenPort(rng, 0))
			case r < 14:
				e("unsquat " + gppGenPort(rng, 0))
			case r < 16:
				e("conn " + gppGenPort(rng, 0))
			case r < 18:
				e("view")
			default:
				gppGenEpisode(rng, e, in)
			}
		}
	}
}

func init() {
	register(&Engine{Name: "grpports", Gen: gppGen, Exec: gppExec})
}
