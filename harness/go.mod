module verif/harness

go 1.23.0

require (
	github.com/coreos/go-oidc/v3 v3.14.1
	github.com/fatedier/frp v0.0.0
	github.com/fatedier/golib v0.5.1
	github.com/hashicorp/yamux v0.1.1
	github.com/pelletier/go-toml/v2 v2.2.0
	github.com/pion/stun/v2 v2.0.0
	github.com/pires/go-proxyproto v0.7.0
	github.com/quic-go/quic-go v0.48.2
	github.com/samber/lo v1.47.0
	github.com/spf13/cobra v1.8.0
	github.com/spf13/pflag v1.0.5
	golang.org/x/crypto v0.37.0
	golang.org/x/net v0.39.0
	golang.org/x/time v0.5.0
)

require (
	github.com/Azure/go-ntlmssp v0.0.0-20221128193559-754e69321358 // indirect
	github.com/armon/go-socks5 v0.0.0-20160902184237-e75332964ef5 // indirect
	github.com/beorn7/perks v1.0.1 // indirect
	github.com/cespare/xxhash/v2 v2.2.0 // indirect
	github.com/go-jose/go-jose/v4 v4.0.5 // indirect
	github.com/golang/snappy v0.0.4 // indirect
	github.com/gorilla/mux v1.8.1 // indirect
	github.com/klauspost/cpuid/v2 v2.2.6 // indirect
	github.com/klauspost/reedsolomon v1.12.0 // indirect
	github.com/pion/dtls/v2 v2.2.7 // indirect
	github.com/pion/logging v0.2.2 // indirect
	github.com/pion/transport/v2 v2.2.1 // indirect
	github.com/pion/transport/v3 v3.0.1 // indirect
	github.com/pkg/errors v0.9.1 // indirect
	github.com/prometheus/client_golang v1.19.1 // indirect
	github.com/prometheus/client_model v0.5.0 // indirect
	github.com/prometheus/common v0.48.0 // indirect
	github.com/prometheus/procfs v0.12.0 // indirect
	github.com/songgao/water v0.0.0-20200317203138-2b4b6d7c09d8 // indirect
	github.com/templexxx/cpu v0.1.1 // indirect
	github.com/templexxx/xorsimd v0.4.3 // indirect
	github.com/tjfoc/gmsm v1.4.1 // indirect
	github.com/vishvananda/netlink v1.3.0 // indirect
	github.com/vishvananda/netns v0.0.4 // indirect
	github.com/xtaci/kcp-go/v5 v5.6.13 // indirect
	golang.org/x/exp v0.0.0-20241204233417-43b7b7cde48d // indirect
	golang.org/x/oauth2 v0.28.0 // indirect
	golang.org/x/sync v0.13.0 // indirect
	golang.org/x/sys v0.32.0 // indirect
	golang.org/x/text v0.24.0 // indirect
	golang.zx2c4.com/wireguard v0.0.0-20231211153847-12269c276173 // indirect
	google.golang.org/protobuf v1.34.1 // indirect
	gopkg.in/ini.v1 v1.67.0 // indirect
	gopkg.in/yaml.v2 v2.4.0 // indirect
	k8s.io/apimachinery v0.28.8 // indirect
	k8s.io/utils v0.0.0-20230406110748-d93618cff8a2 // indirect
	sigs.k8s.io/json v0.0.0-20221116044647-bc3834ca7abd // indirect
	sigs.k8s.io/yaml v1.3.0 // indirect
)

replace github.com/fatedier/frp => /repo

replace github.com/hashicorp/yamux => github.com/fatedier/yamux v0.0.0-20230628132301-7aca4898904d
