module verif/harness

go 1.23.0

require github.com/fatedier/frp v0.0.0

require (
	github.com/Azure/go-ntlmssp v0.0.0-20221128193559-754e69321358 // indirect
	github.com/armon/go-socks5 v0.0.0-20160902184237-e75332964ef5 // indirect
	github.com/fatedier/golib v0.5.1 // indirect
	github.com/golang/snappy v0.0.4 // indirect
	github.com/gorilla/mux v1.8.1 // indirect
	github.com/klauspost/cpuid/v2 v2.2.6 // indirect
	github.com/klauspost/reedsolomon v1.12.0 // indirect
	github.com/pires/go-proxyproto v0.7.0 // indirect
	github.com/pkg/errors v0.9.1 // indirect
	github.com/quic-go/quic-go v0.48.2 // indirect
	github.com/samber/lo v1.47.0 // indirect
	github.com/songgao/water v0.0.0-20200317203138-2b4b6d7c09d8 // indirect
	github.com/templexxx/cpu v0.1.1 // indirect
	github.com/templexxx/xorsimd v0.4.3 // indirect
	github.com/tjfoc/gmsm v1.4.1 // indirect
	github.com/vishvananda/netlink v1.3.0 // indirect
	github.com/vishvananda/netns v0.0.4 // indirect
	github.com/xtaci/kcp-go/v5 v5.6.13 // indirect
	golang.org/x/crypto v0.37.0 // indirect
	golang.org/x/exp v0.0.0-20241204233417-43b7b7cde48d // indirect
	golang.org/x/net v0.39.0 // indirect
	golang.org/x/sys v0.32.0 // indirect
	golang.org/x/text v0.24.0 // indirect
	golang.zx2c4.com/wireguard v0.0.0-20231211153847-12269c276173 // indirect
)

replace github.com/fatedier/frp => /repo

replace github.com/hashicorp/yamux => github.com/fatedier/yamux v0.0.0-20230628132301-7aca4898904d
