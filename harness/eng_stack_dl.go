package main

// Engine "stack" (C01), op `dl`: the deadline discipline of the vhost sniff phase, on the REAL vhost.Muxer
// (HTTPS SNI muxer, tcpmux CONNECT muxer with passthrough off / on) over loopback.
//
//	dl kind=<https|mux|muxpt> to=<muxer timeout ms> age=<ms> route=<ok|user|auth|none|authbad> seed=
//	   The muxer's listener hands out connections wrapped in a RECORDER that notes every SetDeadline /
//	   SetReadDeadline / SetWriteDeadline call that reaches the real socket (zero time or not). The user sends a
//	   ClientHello / CONNECT for a registered domain (route=ok), for a domain routed by HTTP user (user), for one that
//	   needs credentials (auth: right ones, authbad: wrong ones) or for no route at all (none).
//	   Handed on (ok/user/auth): the calls recorded up to the moment the proxy's listener returned the connection,
//	   the deadlines left armed by them, and — once the connection is `age` ms old, which may be MORE than the muxer's
//	   timeout — a backend->user write and a user->backend write, each read back on the other side.
//	   Refused (none/authbad): the user must be hung up on.
//	   => calls=<D+|D0|R+|R0|W+|W0,…>;rd=<0|1>;wd=<0|1>;b2u=<0|1>;u2b=<0|1>      (handed on)
//	   => calls=<…>;closed=<0|1>                                                  (refused)
import (
	"bufio"
	"bytes"
	"context"
	"encoding/base64"
	"fmt"
	"io"
	"net"
	"strings"
	"sync"
	"time"

	"github.com/fatedier/frp/pkg/util/tcpmux"
	"github.com/fatedier/frp/pkg/util/vhost"
)

type stkRecConn struct {
	net.Conn
	mu    sync.Mutex
	calls []string
}

func (c *stkRecConn) note(kind string, t time.Time) {
	c.mu.Lock()
	if t.IsZero() {
		c.calls = append(c.calls, kind+"0")
	} else {
		c.calls = append(c.calls, kind+"+")
	}
	c.mu.Unlock()
}

func (c *stkRecConn) SetDeadline(t time.Time) error      { c.note("D", t); return c.Conn.SetDeadline(t) }
func (c *stkRecConn) SetReadDeadline(t time.Time) error  { c.note("R", t); return c.Conn.SetReadDeadline(t) }
func (c *stkRecConn) SetWriteDeadline(t time.Time) error { c.note("W", t); return c.Conn.SetWriteDeadline(t) }

func (c *stkRecConn) snapshot() []string {
	c.mu.Lock()
	defer c.mu.Unlock()
	return append([]string(nil), c.calls...)
}

// which deadlines a call sequence leaves armed
func stkArmed(calls []string) (rd, wd bool) {
	for _, c := range calls {
		on := strings.HasSuffix(c, "+")
		switch c[0] {
		case 'D':
			rd, wd = on, on
		case 'R':
			rd = on
		case 'W':
			wd = on
		}
	}
	return
}

type stkRecListener struct {
	net.Listener
	out chan *stkRecConn
}

func (l *stkRecListener) Accept() (net.Conn, error) {
	c, err := l.Listener.Accept()
	if err != nil {
		return nil, err
	}
	rc := &stkRecConn{Conn: c}
	l.out <- rc
	return rc, nil
}

type stkDlMux struct {
	addr  string
	rl    *stkRecListener
	plain *vhost.Listener // dl.c01.test
	user  *vhost.Listener // ru.c01.test routed by HTTP user alice (tcpmux) / ru.c01.test (https)
	auth  *vhost.Listener // auth.c01.test with credentials (tcpmux only)
}

var stkDlMuxes = map[string]*stkDlMux{}

func stkGetDlMux(kind string, to int) *stkDlMux {
	key := fmt.Sprintf("%s/%d", kind, to)
	if m, ok := stkDlMuxes[key]; ok {
		return m
	}
	ln, err := net.Listen("tcp", "127.0.0.1:0")
	if err != nil {
		panic(err)
	}
	rl := &stkRecListener{Listener: ln, out: make(chan *stkRecConn, 64)}
	timeout := time.Duration(to) * time.Millisecond
	var mux *vhost.Muxer
	if kind == "https" {
		hm, err := vhost.NewHTTPSMuxer(rl, timeout)
		if err != nil {
			panic(err)
		}
		mux = hm.Muxer
	} else {
		tm, err := tcpmux.NewHTTPConnectTCPMuxer(rl, kind == "muxpt", timeout)
		if err != nil {
			panic(err)
		}
		mux = tm.Muxer
	}
	m := &stkDlMux{addr: ln.Addr().String(), rl: rl}
	listen := func(cfg *vhost.RouteConfig) *vhost.Listener {
		l, err := mux.Listen(context.Background(), cfg)
		if err != nil {
			panic(err)
		}
		return l
	}
	m.plain = listen(&vhost.RouteConfig{Domain: "dl.c01.test"})
	if kind == "https" {
		m.user = listen(&vhost.RouteConfig{Domain: "ru.c01.test"})
	} else {
		m.user = listen(&vhost.RouteConfig{Domain: "ru.c01.test", RouteByHTTPUser: "alice"})
		m.auth = listen(&vhost.RouteConfig{Domain: "auth.c01.test", Username: "bob", Password: "pw"})
	}
	stkDlMuxes[key] = m
	return m
}

func stkDlOnce(kv map[string]string) (string, bool) {
	kind, to, age, route := kv["kind"], atoi(kv["to"]), atoi(kv["age"]), kv["route"]
	seed := int64(atoi(kv["seed"]))
	m := stkGetDlMux(kind, to)
	for len(m.rl.out) > 0 {
		<-m.rl.out
	}
	host, cred := "dl.c01.test", ""
	var l *vhost.Listener = m.plain
	switch route {
	case "user":
		host, cred, l = "ru.c01.test", "alice:x", m.user
	case "auth":
		host, cred, l = "auth.c01.test", "bob:pw", m.auth
	case "authbad":
		host, cred, l = "auth.c01.test", "bob:wrong", m.auth
	case "none":
		host, l = "nobody.c01.test", nil
	}
	if kind == "https" && (route == "auth" || route == "authbad") {
		return "badroute", true
	}
	var req []byte
	if kind == "https" {
		req = stkClientHello(host)
	} else {
		h := ""
		if cred != "" {
			h = "Proxy-Authorization: Basic " + base64.StdEncoding.EncodeToString([]byte(cred)) + "\r\n"
		}
		req = []byte(fmt.Sprintf("CONNECT %s:80 HTTP/1.1\r\nHost: %s:80\r\n%s\r\n", host, host, h))
	}
	handed := route == "ok" || route == "user" || route == "auth"
	acc := make(chan net.Conn, 1)
	stop := make(chan struct{})
	defer close(stop)
	if handed {
		go func() {
			c, err := l.Accept()
			if err != nil {
				c = nil
			}
			select {
			case acc <- c:
			case <-stop:
			}
		}()
	}
	t0 := time.Now()
	user, err := net.Dial("tcp", m.addr)
	if err != nil {
		return "dial", false
	}
	defer user.Close()
	if _, err := user.Write(req); err != nil {
		return "write", false
	}
	var rec *stkRecConn
	select {
	case rec = <-m.rl.out:
	case <-time.After(2 * time.Second):
		return "norec", false
	}
	br := bufio.NewReader(user)
	if !handed {
		// 404 / 407 (tcpmux) or nothing (https), then end-of-stream
		_ = user.SetReadDeadline(time.Now().Add(2 * time.Second))
		_, err := io.Copy(io.Discard, br)
		return fmt.Sprintf("calls=%s;closed=%d", strings.Join(rec.snapshot(), ","), stkBit(err == nil)), err == nil
	}
	if kind == "mux" { // non-passthrough: frps answers 200 itself
		_ = user.SetReadDeadline(time.Now().Add(2 * time.Second))
		var reply []byte
		for !bytes.HasSuffix(reply, []byte("\r\n\r\n")) {
			c, err := br.ReadByte()
			if err != nil {
				return "noreply:" + hx(string(reply)), false
			}
			reply = append(reply, c)
		}
		if !bytes.HasPrefix(reply, []byte("HTTP/1.1 200")) {
			return "noreply:" + hx(string(reply)), false
		}
	}
	var c net.Conn
	select {
	case c = <-acc:
	case <-time.After(2 * time.Second):
		return "noaccept", false
	}
	if c == nil {
		return "noaccept", false
	}
	defer c.Close()
	// the hand-off: everything the muxer did to the socket's deadlines has happened by now
	calls := rec.snapshot()
	rd, wd := stkArmed(calls)
	// passthrough / https: the sniffed request is replayed first
	if kind != "mux" {
		got := make(chan bool, 1)
		go func() {
			buf := make([]byte, len(req))
			_, err := io.ReadFull(c, buf)
			got <- err == nil && bytes.Equal(buf, req)
		}()
		select {
		case ok := <-got:
			if !ok {
				return "noreplay", false
			}
		case <-time.After(2 * time.Second):
			return "noreplay", false
		}
	}
	if d := time.Duration(age)*time.Millisecond - time.Since(t0); d > 0 {
		time.Sleep(d)
	}
	// the connection is in use beyond the sniff phase: both directions must still carry data
	p1 := stkPayload(700+int(seed%900), "rand", seed, false)
	p2 := stkPayload(300+int(seed%500), "rand", seed+1, false)
	b2u, u2b := false, false
	werr := make(chan error, 1)
	go func() { _, err := c.Write(p1); werr <- err }()
	_ = user.SetReadDeadline(time.Now().Add(2 * time.Second))
	buf := make([]byte, len(p1))
	if _, err := io.ReadFull(br, buf); err == nil && bytes.Equal(buf, p1) {
		select {
		case err := <-werr:
			b2u = err == nil
		case <-time.After(2 * time.Second):
		}
	}
	_ = user.SetWriteDeadline(time.Now().Add(2 * time.Second))
	if _, err := user.Write(p2); err == nil {
		got := make(chan bool, 1)
		go func() {
			buf := make([]byte, len(p2))
			_, err := io.ReadFull(c, buf)
			got <- err == nil && bytes.Equal(buf, p2)
		}()
		select {
		case u2b = <-got:
		case <-time.After(2 * time.Second):
		}
	}
	ok := !rd && !wd && b2u && u2b
	return fmt.Sprintf("calls=%s;rd=%d;wd=%d;b2u=%d;u2b=%d", strings.Join(calls, ","), stkBit(rd), stkBit(wd), stkBit(b2u), stkBit(u2b)), ok
}

func stkDlOp(kv map[string]string) string {
	r, ok := stkDlOnce(kv)
	if !ok && !strings.HasPrefix(r, "calls=") {
		// the connection could not be set up within the (short) sniff timeout (loaded machine?): once more
		r, _ = stkDlOnce(kv)
	}
	return r
}
