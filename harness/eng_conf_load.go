package main

// File / JSON / flag paths of one logical proxy or visitor definition, and the loaders from disk
// (engine "conf", C18).
//
//	cf <root> <via> <strict> <user> k=v …         => ok k=v … | err:<kind>
//	    root = p:<proxy type> | v:<visitor type>; the k=v list is ONE logical definition; via says how it
//	    reaches the real code:
//	      mem   built in memory, Complete(user)                          (the existing in-memory path)
//	      toml | yaml | json   written to disk with `user`, loaded by the real config.LoadClientConfig
//	      js    json.Marshal(TypedProxyConfig / TypedVisitorConfig) → json.Unmarshal, then Complete
//	      flag  generated argv parsed by a command carrying the real Register*Flags, then what
//	            cmd/frpc/sub/proxy.go does (Complete, Type = name)
//	      ini   the legacy format ([common] + one section, INI-safe values only) through LoadClientConfig:
//	            DetectLegacyINIFormat, legacy.ParseClientConfig, legacy.Convert_*_To_v1, Complete
//	    the result lists the same fields read back from the resulting configurer
//	load <seed> <fmt> <strict> <inj>              => same | same err | differ …
//	    several proxies and visitors, `includes` (files of mixed formats in a sub-directory), `start`,
//	    environment values and a number-range template, through the real LoadClientConfig; compared with
//	    the written-out document loaded in memory (LoadConfigure) + filter + Complete
//	sload <seed> <fmt> <strict> <inj>             => same | same err | differ …     LoadServerConfig
//	sx <seed> / cx <seed>                         => same | differ …
//	    server / client-common settings that have flags: argv path against the three file formats and, when
//	    the values are INI-safe, against the legacy [common] section (whose keys are the flag names)
//	cval <root> k=v …                             => ok | name | annot | ppv | bwmode | port | hctype | hcpath | plugin | domains | mux | other
//	    ValidateProxyConfigurerForClient / ValidateVisitorConfigurer (name | sname | bport | proto); the blocks of a
//	    proxy definition (name, transport, local address, health check, plugin = Plugin.Type + Plugin.LocalAddr /
//	    LocalPath / UnixPath, the type's own fields) are generated independently of each other
//	sval k=v …                                    => ok | <tag>,<tag>…              ValidateServerConfig
//	nr <str>                                      => ok n,… | err                   parseNumberRange (template function)
//	bweq <a> <b>                                  => eq | ne | err                  BandwidthQuantity.Equal
//	env                                           => same | differ                  GetValues() against os.Environ()

import (
	"encoding/json"
	"fmt"
	"math/rand"
	"os"
	"path/filepath"
	"reflect"
	"sort"
	"strconv"
	"strings"

	"github.com/fatedier/frp/pkg/config"
	"github.com/fatedier/frp/pkg/config/types"
	v1 "github.com/fatedier/frp/pkg/config/v1"
	"github.com/fatedier/frp/pkg/config/v1/validation"
)

var startEnviron = os.Environ()

const envAddrKey, envPortKey = "FRPV_ADDR", "FRPV_PORT"

// the template values: LoadConfigureFromFile renders with config.GetValues(), whose map is the one filled
// from os.Environ() at package initialisation; the harness adds its two keys to that very map
func setEnvValues(addr, port string) {
	e := config.GetValues().Envs
	e[envAddrKey], e[envPortKey] = addr, port
}

// ---------------------------------------------------------------- field path → document key path

func jsonName(sf reflect.StructField) (string, bool) {
	tag := strings.Split(sf.Tag.Get("json"), ",")[0]
	if tag == "" {
		if sf.Anonymous {
			return "", false
		}
		return sf.Name, true
	}
	return tag, true
}

func jsonKeyPath(t reflect.Type, path string) []string {
	keys := []string{}
	for _, p := range strings.Split(path, ".") {
		for t.Kind() == reflect.Ptr {
			t = t.Elem()
		}
		f, ok := t.FieldByName(p)
		if !ok {
			panic("no field " + path)
		}
		cur := t
		for _, idx := range f.Index {
			for cur.Kind() == reflect.Ptr {
				cur = cur.Elem()
			}
			sf := cur.Field(idx)
			if n, ok := jsonName(sf); ok {
				keys = append(keys, n)
			}
			cur = sf.Type
		}
		t = f.Type
	}
	return keys
}

func setTree(tree *[]kv, keys []string, val any) {
	if len(keys) == 1 {
		*tree = append(*tree, kv{keys[0], val})
		return
	}
	for i := range *tree {
		if (*tree)[i].k == keys[0] {
			if sub, ok := (*tree)[i].v.([]kv); ok {
				setTree(&sub, keys[1:], val)
				(*tree)[i].v = sub
				return
			}
		}
	}
	sub := []kv{}
	setTree(&sub, keys[1:], val)
	*tree = append(*tree, kv{keys[0], sub})
}

// docValue: the value as a document literal (nil = leave the key out)
func docValue(enc string) any {
	if enc == "z" {
		return nil
	}
	body := enc[1:]
	switch enc[0] {
	case 's':
		return unhx("x" + body)
	case 'b':
		return true
	case 'i':
		return atoi(body)
	case 'L':
		i := strings.Index(body, ":")
		out := []string{}
		if atoi(body[:i]) > 0 {
			for _, h := range strings.Split(body[i+1:], ",") {
				out = append(out, unhx("x"+h))
			}
		}
		return out
	case 'M':
		i := strings.Index(body, ":")
		out := map[string]string{}
		if atoi(body[:i]) > 0 {
			for _, p := range strings.Split(body[i+1:], ",") {
				q := strings.SplitN(p, "~", 2)
				out[unhx("x"+q[0])] = unhx("x" + q[1])
			}
		}
		return out
	case 'q':
		return unhx("x" + body[:strings.Index(body, ":")])
	}
	panic("bad value " + enc)
}

func renderDoc(tree []kv, format string) string {
	switch format {
	case "toml":
		var b strings.Builder
		toTOML(tree, "", &b)
		return b.String()
	case "yaml":
		var b strings.Builder
		toYAML(tree, "", &b)
		return b.String()
	case "json":
		jb, _ := json.MarshalIndent(toJSONTree(tree), "", "  ")
		return string(jb)
	}
	panic("format " + format)
}

func splitKV(kvs []string) (keys, vals []string) {
	for _, e := range kvs {
		i := strings.Index(e, "=")
		keys, vals = append(keys, e[:i]), append(vals, e[i+1:])
	}
	return
}

func newRoot(root string) (pc v1.ProxyConfigurer, vc v1.VisitorConfigurer) {
	t := root[2:]
	if root[0] == 'p' {
		if pc = v1.NewProxyConfigurerByType(v1.ProxyType(t)); pc == nil {
			panic("proxy type " + t)
		}
		return
	}
	if vc = v1.NewVisitorConfigurerByType(v1.VisitorType(t)); vc == nil {
		panic("visitor type " + t)
	}
	return
}

func setStrict(strict bool) func() {
	v1.DisallowUnknownFieldsMu.Lock()
	v1.DisallowUnknownFields = strict
	return v1.DisallowUnknownFieldsMu.Unlock
}

// the documented flag of a field (what `frpc <type> --help` / the README list)
var proxyFlagOf = map[string]string{"Name": "proxy_name", "Metadatas": "metadatas", "Annotations": "annotations",
	"LocalIP": "local_ip", "LocalPort": "local_port", "Transport.UseEncryption": "ue", "Transport.UseCompression": "uc",
	"Transport.BandwidthLimitMode": "bandwidth_limit_mode", "Transport.BandwidthLimit": "bandwidth_limit",
	"CustomDomains": "custom_domain", "SubDomain": "sd", "RemotePort": "remote_port", "Locations": "locations",
	"HTTPUser": "http_user", "HTTPPassword": "http_pwd", "HostHeaderRewrite": "host_header_rewrite", "Multiplexer": "mux",
	"Secretkey": "sk", "AllowUsers": "allow_users"}

var visitorFlagOf = map[string]string{"Name": "visitor_name", "Transport.UseEncryption": "ue", "Transport.UseCompression": "uc",
	"SecretKey": "sk", "ServerName": "server_name", "ServerUser": "server_user", "BindAddr": "bind_addr", "BindPort": "bind_port"}

func proxyHasFlag(t, field string) bool {
	f, ok := proxyFlagOf[field]
	if !ok {
		return false
	}
	for _, s := range append(append([]flagSpec{}, fsProxyBase...), fsTyped[t]...) {
		if s.name == f {
			return true
		}
	}
	return false
}

func csvSafe(s string) bool { return !strings.ContainsAny(s, ",\"\r\n") }

// flagText: the flag argument that expresses the value ("", false = not expressible)
func flagText(enc string) (string, bool) {
	switch v := docValue(enc).(type) {
	case string:
		return v, true
	case bool:
		return "true", true
	case int:
		return strconv.Itoa(v), true
	case []string:
		for _, s := range v {
			if !csvSafe(s) {
				return "", false
			}
		}
		if len(v) == 1 && v[0] == "" {
			return "", false // one empty item is the same text as no item
		}
		return strings.Join(v, ","), true
	case map[string]string:
		if len(v) == 0 {
			return "", false
		}
		keys := []string{}
		for k := range v {
			keys = append(keys, k)
		}
		sort.Strings(keys)
		parts := []string{}
		for _, k := range keys {
			if !csvSafe(k) || !csvSafe(v[k]) || strings.Contains(k, "=") || (len(v) > 1 && strings.Contains(v[k], "=")) {
				return "", false
			}
			parts = append(parts, k+"="+v[k])
		}
		return strings.Join(parts, ","), true
	}
	return "", false
}

func confCF(tok []string) string {
	root, via, strict, user := tok[1], tok[2], tok[3] == "1", unhx(tok[4])
	keys, vals := splitKV(tok[5:])
	t := root[2:]
	isProxy := root[0] == 'p'
	var pc v1.ProxyConfigurer
	var vc v1.VisitorConfigurer
	switch via {
	case "mem", "js":
		pc, vc = newRoot(root)
		var target any = pc
		if !isProxy {
			target = vc
		}
		rv := reflect.ValueOf(target).Elem()
		for i, k := range keys {
			decInto(fieldByPath(rv, k), vals[i])
		}
		if via == "js" {
			var b []byte
			var err error
			if isProxy {
				b, err = json.Marshal(&v1.TypedProxyConfig{Type: t, ProxyConfigurer: pc})
			} else {
				b, err = json.Marshal(&v1.TypedVisitorConfig{Type: t, VisitorConfigurer: vc})
			}
			if err != nil {
				return "err:marshal"
			}
			unlock := setStrict(strict)
			if isProxy {
				back := v1.TypedProxyConfig{}
				err = json.Unmarshal(b, &back)
				pc = back.ProxyConfigurer
				if err == nil && back.Type != t {
					err = fmt.Errorf("type")
				}
			} else {
				back := v1.TypedVisitorConfig{}
				err = json.Unmarshal(b, &back)
				vc = back.VisitorConfigurer
				if err == nil && back.Type != t {
					err = fmt.Errorf("type")
				}
			}
			unlock()
			if err != nil {
				return "err:unmarshal"
			}
		}
		if isProxy {
			pc.Complete(user)
		} else {
			vc.Complete(&v1.ClientCommonConfig{User: user})
		}
	case "toml", "yaml", "json":
		pc, vc = newRoot(root)
		var rt reflect.Type
		if isProxy {
			rt = reflect.TypeOf(pc).Elem()
		} else {
			rt = reflect.TypeOf(vc).Elem()
		}
		item := []kv{{"type", t}}
		for i, k := range keys {
			if k == "Type" {
				continue
			}
			if v := docValue(vals[i]); v != nil {
				setTree(&item, jsonKeyPath(rt, k), v)
			}
		}
		top := []kv{}
		if user != "" {
			top = append(top, kv{"user", user})
		}
		top = append(top, kv{map[bool]string{true: "proxies", false: "visitors"}[isProxy], [][]kv{item}})
		path := writeTmp("cf/frpc."+via, renderDoc(top, via))
		_, ps, vs, legacy, err := config.LoadClientConfig(path, strict)
		if err != nil {
			return "err:load"
		}
		if legacy {
			return "err:legacy"
		}
		if isProxy {
			if len(ps) != 1 || len(vs) != 0 {
				return "err:count"
			}
			pc = ps[0]
		} else {
			if len(vs) != 1 || len(ps) != 0 {
				return "err:count"
			}
			vc = vs[0]
		}
	case "ini":
		// the legacy format: [common] + one section; LoadClientConfig detects it and converts
		doc, ok := iniDoc(root, user, keys, vals)
		if !ok {
			return "err:noini"
		}
		path := writeTmp("cf/frpc.ini", doc)
		_, ps, vs, legacy, err := config.LoadClientConfig(path, strict)
		if err != nil {
			return "err:load"
		}
		if !legacy {
			return "err:notlegacy"
		}
		if isProxy {
			if len(ps) != 1 || len(vs) != 0 {
				return "err:count"
			}
			pc = ps[0]
		} else {
			if len(vs) != 1 || len(ps) != 0 {
				return "err:count"
			}
			vc = vs[0]
		}
	case "flag":
		g := root
		fc := buildFlagCmd(g, false)
		argv := []string{}
		if user != "" {
			argv = append(argv, "--user="+user)
		}
		for i, k := range keys {
			if vals[i] == "z" {
				continue
			}
			var name string
			if isProxy {
				if !proxyHasFlag(t, k) {
					return "err:noflag"
				}
				name = proxyFlagOf[k]
			} else {
				var ok bool
				if name, ok = visitorFlagOf[k]; !ok {
					return "err:noflag"
				}
			}
			txt, ok := flagText(vals[i])
			if !ok {
				return "err:noflag"
			}
			argv = append(argv, "--"+name+"="+txt)
		}
		if err := fc.cmd.ParseFlags(argv); err != nil {
			return "err:parse"
		}
		// cmd/frpc/sub/proxy.go, Run of NewProxyCommand / NewVisitorCommand
		fc.client.Complete()
		if isProxy {
			pc = fc.proxy
			pc.Complete(fc.client.User)
			pc.GetBaseConfig().Type = t
		} else {
			vc = fc.visitor
			vc.Complete(fc.client)
			vc.GetBaseConfig().Type = t
		}
	default:
		panic("via " + via)
	}
	var rv reflect.Value
	if isProxy {
		if reflect.TypeOf(pc) != reflect.TypeOf(v1.NewProxyConfigurerByType(v1.ProxyType(t))) {
			return "err:othertype"
		}
		rv = reflect.ValueOf(pc).Elem()
	} else {
		if reflect.TypeOf(vc) != reflect.TypeOf(v1.NewVisitorConfigurerByType(v1.VisitorType(t))) {
			return "err:othertype"
		}
		rv = reflect.ValueOf(vc).Elem()
	}
	out := []string{"ok"}
	for _, k := range keys {
		out = append(out, k+"="+encValue(fieldByPath(rv, k)))
	}
	return strings.Join(out, " ")
}

// ---------------------------------------------------------------- validators

func confCVal(tok []string) string {
	root := tok[1]
	keys, vals := splitKV(tok[2:])
	pc, vc := newRoot(root)
	if root[0] == 'p' {
		rv := reflect.ValueOf(pc).Elem()
		plug := map[string]string{}
		for i, k := range keys {
			if strings.HasPrefix(k, "Plugin.") {
				plug[k[len("Plugin."):]] = docString(vals[i])
				continue
			}
			decInto(fieldByPath(rv, k), vals[i])
		}
		setClientPlugin(pc.GetBaseConfig(), plug)
		err := validation.ValidateProxyConfigurerForClient(pc)
		if err == nil {
			return "ok"
		}
		s := err.Error()
		switch {
		case strings.HasPrefix(s, "plugin "):
			return "plugin"
		case strings.Contains(s, "name should not be empty"):
			return "name"
		case strings.Contains(s, "annotation"):
			return "annot"
		case strings.Contains(s, "not support proxy protocol version"):
			return "ppv"
		case strings.Contains(s, "bandwidth limit mode should be"):
			return "bwmode"
		case strings.HasPrefix(s, "localPort:"):
			return "port"
		case strings.Contains(s, "not support health check type"):
			return "hctype"
		case strings.Contains(s, "health check path should not be empty"):
			return "hcpath"
		case strings.Contains(s, "subdomain and custom domains should not be both empty"):
			return "domains"
		case strings.Contains(s, "not support multiplexer"):
			return "mux"
		}
		return "other"
	}
	rv := reflect.ValueOf(vc).Elem()
	for i, k := range keys {
		decInto(fieldByPath(rv, k), vals[i])
	}
	err := validation.ValidateVisitorConfigurer(vc)
	if err == nil {
		return "ok"
	}
	switch s := err.Error(); {
	case s == "name is required":
		return "name"
	case s == "server name is required":
		return "sname"
	case s == "bind port is required":
		return "bport"
	case strings.Contains(s, "protocol should be kcp or quic"):
		return "proto"
	}
	return "other"
}

var svalFields = []string{"Auth.Method", "Log.Level", "WebServer.Port", "WebServer.TLS.CertFile", "WebServer.TLS.KeyFile",
	"BindPort", "KCPBindPort", "QUICBindPort", "VhostHTTPPort", "VhostHTTPSPort", "TCPMuxHTTPConnectPort"}

func confSVal(tok []string) string {
	keys, vals := splitKV(tok[1:])
	c := &v1.ServerConfig{}
	rv := reflect.ValueOf(c).Elem()
	for i, k := range keys {
		switch k {
		case "Auth.Method":
			c.Auth.Method = v1.AuthMethod(docString(vals[i]))
		case "WebServer.TLS":
			if vals[i] != "z" {
				c.WebServer.TLS = &v1.TLSConfig{}
			}
		case "WebServer.TLS.CertFile":
			c.WebServer.TLS.CertFile = docString(vals[i])
		case "WebServer.TLS.KeyFile":
			c.WebServer.TLS.KeyFile = docString(vals[i])
		case "Auth.AdditionalScopes":
			for _, s := range docValue(vals[i]).([]string) {
				c.Auth.AdditionalScopes = append(c.Auth.AdditionalScopes, v1.AuthScope(s))
			}
		default:
			decInto(fieldByPath(rv, k), vals[i])
		}
	}
	_, err := validation.ValidateServerConfig(c)
	if err == nil {
		return "ok"
	}
	tags := []string{}
	for _, line := range strings.Split(err.Error(), "\n") {
		switch {
		case strings.HasPrefix(line, "invalid auth method"):
			tags = append(tags, "auth")
		case strings.HasPrefix(line, "invalid auth additional scopes"):
			tags = append(tags, "scopes")
		case strings.HasPrefix(line, "invalid log level"):
			tags = append(tags, "log")
		case strings.HasPrefix(line, "tls.certFile"):
			tags = append(tags, "cert")
		case strings.HasPrefix(line, "tls.keyFile"):
			tags = append(tags, "key")
		case strings.Contains(line, ": port number "):
			tags = append(tags, "port:"+line[:strings.Index(line, ":")])
		default:
			tags = append(tags, "other")
		}
	}
	return strings.Join(tags, ",")
}

func docString(enc string) string {
	if s, ok := docValue(enc).(string); ok {
		return s
	}
	return ""
}

// ---------------------------------------------------------------- small ops

func confNR(tok []string) string {
	tpl := fmt.Sprintf(`{{ range $i, $v := parseNumberRange %q }}{{ $v }},{{ end }}`, unhx(tok[1]))
	out, err := config.RenderWithTemplate([]byte(tpl), &config.Values{Envs: map[string]string{}})
	if err != nil {
		return "err"
	}
	return "ok " + strings.TrimSuffix(string(out), ",")
}

func confBWEq(tok []string) string {
	a, err1 := types.NewBandwidthQuantity(unhx(tok[1]))
	b, err2 := types.NewBandwidthQuantity(unhx(tok[2]))
	if err1 != nil || err2 != nil {
		return "err"
	}
	if a.Equal(&b) != b.Equal(&a) {
		return "asymmetric"
	}
	var n *types.BandwidthQuantity
	if !n.Equal(nil) || n.Equal(&a) || a.Equal(nil) {
		return "nilcase"
	}
	if a.Equal(&b) {
		return "eq"
	}
	return "ne"
}

func confEnv() string {
	want := map[string]string{}
	for _, e := range startEnviron {
		p := strings.SplitN(e, "=", 2)
		if len(p) == 2 {
			want[p[0]] = p[1]
		}
	}
	// every value the loader will hand to templates is the one the process was started with (packages
	// initialised after pkg/config may have added variables of their own since)
	got := config.GetValues().Envs
	n := 0
	for k, v := range got {
		if k == envAddrKey || k == envPortKey {
			continue
		}
		if w, ok := want[k]; !ok || w != v {
			return "differ " + hx(k)
		}
		n++
	}
	if n == 0 || n+4 < len(want) {
		return "differ count"
	}
	return "same"
}

// ---------------------------------------------------------------- whole documents from disk

func genVisitorTree(rng *rand.Rand, i int) []kv {
	t := pick(rng, []string{"stcp", "xtcp", "sudp"})
	v := []kv{{"name", "v" + strconv.Itoa(i) + pick(rng, []string{"", "-名"})}, {"type", t},
		{"serverName", pick(rng, []string{"srv", "p0", "远"})}, {"bindPort", pick(rng, []int{9000, -1, 65535})}}
	if rng.Intn(2) == 0 {
		v = append(v, kv{"secretKey", pick(rng, confStrings)})
	}
	if rng.Intn(3) == 0 {
		v = append(v, kv{"serverUser", pick(rng, []string{"other", "Ü"})})
	}
	if rng.Intn(3) == 0 {
		v = append(v, kv{"bindAddr", pick(rng, []string{"0.0.0.0", "::1"})})
	}
	if rng.Intn(3) == 0 {
		v = append(v, kv{"transport", []kv{{"useEncryption", rng.Intn(2) == 0}, {"useCompression", rng.Intn(2) == 0}}})
	}
	if t == "xtcp" {
		if rng.Intn(2) == 0 {
			v = append(v, kv{"protocol", pick(rng, []string{"kcp", "quic"})})
		}
		if rng.Intn(2) == 0 {
			v = append(v, kv{"keepTunnelOpen", rng.Intn(2) == 0}, kv{"maxRetriesAnHour", pick(rng, []int{0, 3, 100})})
		}
		if rng.Intn(2) == 0 {
			v = append(v, kv{"fallbackTo", "v9"}, kv{"fallbackTimeoutMs", pick(rng, []int{0, 200})})
		}
	}
	return v
}

func renameFirst(t []kv, name string) []kv {
	c := append([]kv{}, t...)
	for i := range c {
		if c[i].k == "name" {
			c[i] = kv{"name", name}
		}
	}
	return c
}

func treeName(t []kv) string {
	for _, e := range t {
		if e.k == "name" {
			return e.v.(string)
		}
	}
	return ""
}

const addrPlaceholder, portPlaceholder = "@@FRPV-ADDR@@", 987654321

func withTemplates(doc string) string {
	doc = strings.ReplaceAll(doc, addrPlaceholder, "{{ .Envs."+envAddrKey+" }}")
	return strings.ReplaceAll(doc, strconv.Itoa(portPlaceholder), "{{ .Envs."+envPortKey+" }}")
}

func withValues(doc, addr, port string) string {
	doc = strings.ReplaceAll(doc, addrPlaceholder, addr)
	return strings.ReplaceAll(doc, strconv.Itoa(portPlaceholder), port)
}

type incFile struct {
	name     string
	format   string
	proxies  [][]kv
	visitors [][]kv
}

func confLoad(tok []string) string {
	rng := rand.New(rand.NewSource(int64(atoi(tok[1]))))
	format, strict, inj := tok[2], tok[3] == "1", tok[4] == "1"
	addr := pick(rng, []string{"1.2.3.4", "frps.example.com", "with space", "ünï"})
	port := strconv.Itoa(7000 + rng.Intn(100))
	setEnvValues(addr, port)
	dir := filepath.Join(confTmp(), "load")
	os.RemoveAll(dir)

	user := pick(rng, []string{"", "", "u", "Ünï"})
	main := []kv{{"serverAddr", addrPlaceholder}, {"serverPort", portPlaceholder}}
	if user != "" {
		main = append(main, kv{"user", user})
	}
	if rng.Intn(2) == 0 {
		main = append(main, kv{"auth", []kv{{"method", "token"}, {"token", pick(rng, confStrings)}}})
	}
	proxies, visitors := [][]kv{}, [][]kv{}
	for i := 0; i < 1+rng.Intn(3); i++ {
		proxies = append(proxies, genProxyTree(rng, i))
	}
	for i := 0; i < rng.Intn(3); i++ {
		visitors = append(visitors, genVisitorTree(rng, i))
	}
	incs := []incFile{}
	for i := 0; i < rng.Intn(3); i++ {
		f := incFile{name: fmt.Sprintf("%c%d.conf", "ba"[i%2], i), format: pick(rng, []string{"toml", "yaml", "json"})}
		for j := 0; j < 1+rng.Intn(2); j++ {
			f.proxies = append(f.proxies, renameFirst(genProxyTree(rng, j), fmt.Sprintf("q%d-%d", i, j)))
		}
		if rng.Intn(3) == 0 {
			f.visitors = append(f.visitors, renameFirst(genVisitorTree(rng, 0), fmt.Sprintf("w%d", i)))
		}
		incs = append(incs, f)
	}
	if len(incs) > 0 || rng.Intn(4) == 0 {
		main = append(main, kv{"includes", []string{filepath.Join(dir, "inc", "*.conf")}})
		os.MkdirAll(filepath.Join(dir, "inc"), 0o755)
		os.WriteFile(filepath.Join(dir, "inc", "ignored.txt"), []byte("this is { not a configuration"), 0o644)
		os.MkdirAll(filepath.Join(dir, "inc", "sub.conf"), 0o755) // a directory that matches the pattern
	}
	// `start`: a subset of all names, sometimes with a name that does not exist
	all := append(append([][]kv{}, proxies...), visitors...)
	for _, f := range incs {
		all = append(append(all, f.proxies...), f.visitors...)
	}
	var start []string
	if rng.Intn(3) == 0 {
		for _, t := range all {
			if rng.Intn(2) == 0 {
				start = append(start, treeName(t))
			}
		}
		if rng.Intn(3) == 0 {
			start = append(start, "no-such-proxy")
		}
		if len(start) > 0 {
			main = append(main, kv{"start", start})
		}
	}
	// the injected unknown key: at the top level, inside a nested table of the common part, in a proxy, in a
	// nested table of a proxy, in a visitor — of the main document or of an included file
	withUnknown := func(t []kv) []kv { return append(append([]kv{}, t...), kv{"zzUnknownField", 1}) }
	injectEntity := func(list [][]kv, deep bool) [][]kv {
		c := append([][]kv{}, list...)
		i := rng.Intn(len(c))
		if deep {
			for j, e := range c[i] {
				if sub, ok := e.v.([]kv); ok {
					el := append([]kv{}, c[i]...)
					el[j] = kv{e.k, withUnknown(sub)}
					c[i] = el
					return c
				}
			}
		}
		c[i] = withUnknown(c[i])
		return c
	}
	injMainTop, injProxies, injVisitors, injInc, injIncVisitor := main, proxies, visitors, -1, false
	injSite := ""
	if inj {
		sites := []string{"top", "top-nested", "proxy", "proxy-nested"}
		if len(visitors) > 0 {
			sites = append(sites, "visitor", "visitor", "visitor-nested")
		}
		if len(incs) > 0 {
			sites = append(sites, "inc-proxy", "inc-proxy", "inc-visitor")
		}
		injSite = pick(rng, sites)
		switch injSite {
		case "top":
			injMainTop = withUnknown(main)
		case "top-nested":
			injMainTop = injectEntity([][]kv{main}, true)[0]
		case "proxy":
			injProxies = injectEntity(proxies, false)
		case "proxy-nested":
			injProxies = injectEntity(proxies, true)
		case "visitor":
			injVisitors = injectEntity(visitors, false)
		case "visitor-nested":
			injVisitors = injectEntity(visitors, true)
		case "inc-proxy":
			injInc = rng.Intn(len(incs))
		case "inc-visitor":
			injInc, injIncVisitor = rng.Intn(len(incs)), true
		}
	}
	injMain := append(append([]kv{}, injMainTop...), kv{"proxies", injProxies})
	if len(visitors) > 0 {
		injMain = append(injMain, kv{"visitors", injVisitors})
	}

	// the number-range template (TOML only: further [[proxies]] at the end of the document)
	text := withTemplates(renderDoc(injMain, format))
	rangeProxies := [][]kv{}
	if format == "toml" && rng.Intn(2) == 0 {
		n := 1 + rng.Intn(4)
		a, b := genCounted(rng, n), genCounted(rng, n)
		text += fmt.Sprintf("\n{{- range $_, $v := parseNumberRangePair %q %q }}\n[[proxies]]\nname = \"r-{{ $v.First }}\"\ntype = \"tcp\"\nlocalPort = {{ $v.First }}\nremotePort = {{ $v.Second }}\n{{- end }}\n", a, b)
		xa, xb := expandCounted(a), expandCounted(b)
		for i := range xa {
			rangeProxies = append(rangeProxies, []kv{{"name", fmt.Sprintf("r-%d", xa[i])}, {"type", "tcp"}, {"localPort", xa[i]}, {"remotePort", xb[i]}})
		}
	}
	mainPath := filepath.Join(dir, "frpc."+format)
	os.MkdirAll(dir, 0o755)
	os.WriteFile(mainPath, []byte(text), 0o644)
	for i, f := range incs {
		t := []kv{{"proxies", f.proxies}}
		if len(f.visitors) > 0 {
			t = append(t, kv{"visitors", f.visitors})
		}
		if i == injInc {
			if injIncVisitor && len(f.visitors) > 0 {
				t = []kv{{"proxies", f.proxies}, {"visitors", injectEntity(f.visitors, rng.Intn(2) == 0)}}
			} else {
				t = []kv{{"proxies", injectEntity(f.proxies, rng.Intn(2) == 0)}}
				if len(f.visitors) > 0 {
					t = append(t, kv{"visitors", f.visitors})
				}
			}
		}
		os.WriteFile(filepath.Join(dir, "inc", f.name), []byte(renderDoc(t, f.format)), 0o644)
	}

	gotC, gotP, gotV, legacy, err := config.LoadClientConfig(mainPath, strict)
	if inj && strict {
		if err == nil {
			return "differ strict-accepted-unknown site=" + injSite
		}
		return "same err"
	}
	if err != nil {
		return "differ load-error " + hx(err.Error()+"\n"+text)
	}
	if legacy {
		return "differ legacy"
	}

	// expected: the written-out document (no templates, includes merged in directory order) through the
	// in-memory path, then `start`, then Complete
	wantProxies := append(append([][]kv{}, proxies...), rangeProxies...)
	wantVisitors := append([][]kv{}, visitors...)
	sorted := append([]incFile{}, incs...)
	sort.Slice(sorted, func(i, j int) bool { return sorted[i].name < sorted[j].name })
	for _, f := range sorted {
		wantProxies = append(wantProxies, f.proxies...)
		wantVisitors = append(wantVisitors, f.visitors...)
	}
	full := append(append([]kv{}, main...), kv{"proxies", wantProxies})
	if len(wantVisitors) > 0 {
		full = append(full, kv{"visitors", wantVisitors})
	}
	want := v1.ClientConfig{}
	if err := config.LoadConfigure([]byte(withValues(renderDoc(full, "json"), addr, port)), &want, false); err != nil {
		return "differ expected-load-error " + hx(err.Error())
	}
	keep := func(name string) bool {
		if len(start) == 0 {
			return true
		}
		for _, s := range start {
			if s == name {
				return true
			}
		}
		return false
	}
	wantP, wantV := []v1.ProxyConfigurer{}, []v1.VisitorConfigurer{}
	for _, p := range want.Proxies {
		if keep(p.GetBaseConfig().Name) {
			wantP = append(wantP, p.ProxyConfigurer)
		}
	}
	for _, v := range want.Visitors {
		if keep(v.GetBaseConfig().Name) {
			wantV = append(wantV, v.VisitorConfigurer)
		}
	}
	want.ClientCommonConfig.Complete()
	for _, p := range wantP {
		p.Complete(want.User)
	}
	for _, v := range wantV {
		v.Complete(&want.ClientCommonConfig)
	}
	if !reflect.DeepEqual(gotC, &want.ClientCommonConfig) {
		return "differ common " + sameOrDiffer(gotC, &want.ClientCommonConfig)
	}
	if len(gotP) != len(wantP) || len(gotV) != len(wantV) {
		return fmt.Sprintf("differ count proxies=%d/%d visitors=%d/%d", len(gotP), len(wantP), len(gotV), len(wantV))
	}
	for i := range gotP {
		if !reflect.DeepEqual(gotP[i], wantP[i]) {
			return "differ proxy " + hx(gotP[i].GetBaseConfig().Name)
		}
	}
	for i := range gotV {
		if !reflect.DeepEqual(gotV[i], wantV[i]) {
			return "differ visitor " + hx(gotV[i].GetBaseConfig().Name)
		}
	}
	return "same"
}

func expandCounted(s string) []int {
	out := []int{}
	for _, p := range strings.Split(s, ",") {
		if i := strings.Index(p, "-"); i >= 0 {
			for n := atoi(p[:i]); n <= atoi(p[i+1:]); n++ {
				out = append(out, n)
			}
		} else {
			out = append(out, atoi(p))
		}
	}
	return out
}

func genServerTree(rng *rand.Rand, flagsOnly bool) []kv {
	t := []kv{}
	add := func(p int, e kv) {
		if rng.Intn(p) == 0 {
			t = append(t, e)
		}
	}
	add(2, kv{"bindAddr", pick(rng, []string{"0.0.0.0", "127.0.0.1", "::"})})
	t = append(t, kv{"bindPort", portPlaceholder})
	add(3, kv{"kcpBindPort", pick(rng, []int{7000, 7001})})
	add(3, kv{"quicBindPort", 7002})
	if flagsOnly {
		t = append(t, kv{"proxyBindAddr", pick(rng, []string{"0.0.0.0", "10.0.0.1"})})
	} else {
		add(3, kv{"proxyBindAddr", "10.0.0.1"})
	}
	add(2, kv{"vhostHTTPPort", pick(rng, []int{80, 8080})})
	add(2, kv{"vhostHTTPSPort", 443})
	add(3, kv{"vhostHTTPTimeout", pick(rng, []int{30, 120})})
	add(2, kv{"subDomainHost", pick(rng, []string{"example.com", "Frp.Test"})})
	add(3, kv{"maxPortsPerClient", pick(rng, []int{1, 50})})
	add(3, kv{"enablePrometheus", true})
	add(2, kv{"auth", []kv{{"token", pick(rng, confStrings)}}})
	add(2, kv{"log", []kv{{"to", pick(rng, []string{"console", "/tmp/frps.log"})}, {"level", pick(rng, []string{"trace", "debug", "info", "warn"})}, {"maxDays", pick(rng, []int{1, 30})}, {"disablePrintColor", rng.Intn(2) == 0}}})
	add(3, kv{"transport", []kv{{"tls", []kv{{"force", true}}}}})
	if flagsOnly {
		// the fields whose flag default differs from the file default are always written
		t = append(t, kv{"webServer", []kv{{"addr", pick(rng, []string{"0.0.0.0", "127.0.0.1"})}, {"port", pick(rng, []int{0, 7500})},
			{"user", pick(rng, []string{"admin", "root", "Ünï"})}, {"password", pick(rng, []string{"admin", "s3cr3t pw"})}}})
		return t
	}
	add(2, kv{"webServer", []kv{{"addr", "127.0.0.1"}, {"port", 7500}, {"user", "u"}, {"tls", []kv{{"certFile", "c.pem"}, {"keyFile", "k.pem"}}}}})
	add(3, kv{"tcpmuxHTTPConnectPort", 1337})
	add(3, kv{"custom404Page", "/srv/404.html"})
	add(3, kv{"udpPacketSize", 1400})
	add(3, kv{"allowPorts", [][]kv{{{"start", 2000}, {"end", 3000}}, {{"single", 3001}}}})
	add(3, kv{"httpPlugins", [][]kv{{{"name", "m"}, {"addr", "127.0.0.1:9000"}, {"path", "/h"}, {"ops", []string{"Login", "NewProxy"}}}}})
	return t
}

func confSLoad(tok []string) string {
	rng := rand.New(rand.NewSource(int64(atoi(tok[1]))))
	format, strict, inj := tok[2], tok[3] == "1", tok[4] == "1"
	port := strconv.Itoa(7000 + rng.Intn(100))
	setEnvValues("unused", port)
	tree := genServerTree(rng, false)
	doc := tree
	if inj {
		for level := rng.Intn(3); level >= 0; level-- {
			if n, ok := inject(tree, level); ok {
				doc = n
				break
			}
		}
	}
	path := writeTmp("sload/frps."+format, withTemplates(renderDoc(doc, format)))
	got, legacy, err := config.LoadServerConfig(path, strict)
	if inj && strict {
		if err == nil {
			return "differ strict-accepted-unknown"
		}
		return "same err"
	}
	if err != nil {
		return "differ load-error " + hx(err.Error())
	}
	if legacy {
		return "differ legacy"
	}
	want := &v1.ServerConfig{}
	if err := config.LoadConfigure([]byte(withValues(renderDoc(tree, "json"), "unused", port)), want, false); err != nil {
		return "differ expected-load-error " + hx(err.Error())
	}
	want.Complete()
	if !reflect.DeepEqual(got, want) {
		return sameOrDiffer(got, want)
	}
	return "same"
}

// the document keys of the settings that have a server flag
var serverFlagOfKey = map[string]string{"bindAddr": "bind_addr", "bindPort": "bind_port", "kcpBindPort": "kcp_bind_port",
	"quicBindPort": "quic_bind_port", "proxyBindAddr": "proxy_bind_addr", "vhostHTTPPort": "vhost_http_port",
	"vhostHTTPSPort": "vhost_https_port", "vhostHTTPTimeout": "vhost_http_timeout", "subDomainHost": "subdomain_host",
	"maxPortsPerClient": "max_ports_per_client", "enablePrometheus": "enable_prometheus", "auth.token": "token",
	"log.to": "log_file", "log.level": "log_level", "log.maxDays": "log_max_days", "log.disablePrintColor": "disable_log_color",
	"transport.tls.force": "tls_only", "webServer.addr": "dashboard_addr", "webServer.port": "dashboard_port",
	"webServer.user": "dashboard_user", "webServer.password": "dashboard_pwd"}

var clientFlagOfKey = map[string]string{"serverAddr": "server_addr", "serverPort": "server_port", "user": "user",
	"auth.token": "token", "transport.protocol": "protocol", "transport.tls.enable": "tls_enable",
	"transport.tls.serverName": "tls_server_name", "log.to": "log_file", "log.level": "log_level", "log.maxDays": "log_max_days",
	"log.disablePrintColor": "disable_log_color", "dnsServer": "dns_server"}

func treeArgv(t []kv, prefix string, names map[string]string, rng *rand.Rand, out *[]string) bool {
	for _, e := range t {
		key := prefix + e.k
		if sub, ok := e.v.([]kv); ok {
			if !treeArgv(sub, key+".", names, rng, out) {
				return false
			}
			continue
		}
		name, ok := names[key]
		if !ok {
			return false
		}
		var txt string
		switch v := e.v.(type) {
		case string:
			txt = v
		case int:
			txt = strconv.Itoa(v)
		case bool:
			txt = strconv.FormatBool(v)
		default:
			return false
		}
		*out = append(*out, "--"+respell(rng, name)+"="+txt)
	}
	return true
}

func confSX(tok []string) string {
	rng := rand.New(rand.NewSource(int64(atoi(tok[1]))))
	port := strconv.Itoa(7000 + rng.Intn(100))
	setEnvValues("unused", port)
	tree := genServerTree(rng, true)
	argv := []string{}
	var valued []kv
	for _, e := range tree {
		if e.k == "bindPort" {
			e = kv{"bindPort", atoi(port)}
		}
		valued = append(valued, e)
	}
	if !treeArgv(valued, "", serverFlagOfKey, rng, &argv) {
		return "err:noflag"
	}
	fc := buildFlagCmd("s", false)
	if err := fc.cmd.ParseFlags(argv); err != nil {
		return "differ parse-error " + hx(err.Error())
	}
	fc.server.Complete() // cmd/frps/root.go
	for _, format := range []string{"toml", "yaml", "json"} {
		got, _, err := config.LoadServerConfig(writeTmp("sx/frps."+format, withTemplates(renderDoc(tree, format))), true)
		if err != nil {
			return "differ load-error " + format + " " + hx(err.Error())
		}
		if r := sameOrDiffer(fc.server, got); r != "same" {
			return r + " " + format
		}
	}
	// the legacy INI format names its keys like the flags
	var ini strings.Builder
	ini.WriteString("[common]\n")
	for _, a := range argv {
		kvp := strings.SplitN(strings.TrimPrefix(a, "--"), "=", 2)
		if !iniSafe(kvp[1]) {
			return "same"
		}
		ini.WriteString(strings.ReplaceAll(kvp[0], "-", "_") + " = " + kvp[1] + "\n")
	}
	got, legacy, err := config.LoadServerConfig(writeTmp("sx/frps.ini", ini.String()), true)
	if err != nil || !legacy {
		return "differ load-error ini"
	}
	if r := sameOrDiffer(fc.server, got); r != "same" {
		return r + " ini"
	}
	return "same"
}

func genClientCommonTree(rng *rand.Rand) []kv {
	t := []kv{{"serverAddr", pick(rng, []string{"127.0.0.1", "0.0.0.0", "frps.example.com", "1.2.3.4"})}}
	add := func(p int, e kv) {
		if rng.Intn(p) == 0 {
			t = append(t, e)
		}
	}
	add(2, kv{"serverPort", pick(rng, []int{7000, 443, 65535})})
	add(2, kv{"user", pick(rng, []string{"u", "Ünï", "a b"})})
	add(3, kv{"dnsServer", "8.8.8.8"})
	add(2, kv{"auth", []kv{{"token", pick(rng, confStrings)}}})
	tr := []kv{}
	if rng.Intn(2) == 0 {
		tr = append(tr, kv{"protocol", pick(rng, []string{"tcp", "kcp", "quic", "websocket", "wss"})})
	}
	if rng.Intn(2) == 0 {
		tls := []kv{}
		if rng.Intn(2) == 0 {
			tls = append(tls, kv{"enable", rng.Intn(2) == 0})
		}
		if rng.Intn(2) == 0 {
			tls = append(tls, kv{"serverName", "frps.example.com"})
		}
		if len(tls) > 0 {
			tr = append(tr, kv{"tls", tls})
		}
	}
	if len(tr) > 0 {
		t = append(t, kv{"transport", tr})
	}
	add(2, kv{"log", []kv{{"to", pick(rng, []string{"console", "./frpc.log"})}, {"level", pick(rng, []string{"trace", "info", "error"})}, {"maxDays", pick(rng, []int{1, 7})}, {"disablePrintColor", rng.Intn(2) == 0}}})
	return t
}

func confCX(tok []string) string {
	rng := rand.New(rand.NewSource(int64(atoi(tok[1]))))
	tree := genClientCommonTree(rng)
	argv := []string{}
	if !treeArgv(tree, "", clientFlagOfKey, rng, &argv) {
		return "err:noflag"
	}
	fc := buildFlagCmd("p:tcp", false)
	if err := fc.cmd.ParseFlags(argv); err != nil {
		return "differ parse-error " + hx(err.Error())
	}
	fc.client.Complete() // cmd/frpc/sub/proxy.go
	for _, format := range []string{"toml", "yaml", "json"} {
		got, _, _, _, err := config.LoadClientConfig(writeTmp("cx/frpc."+format, renderDoc(tree, format)), true)
		if err != nil {
			return "differ load-error " + format + " " + hx(err.Error())
		}
		if r := sameOrDiffer(fc.client, got); r != "same" {
			return r + " " + format
		}
	}
	var ini strings.Builder
	ini.WriteString("[common]\n")
	for _, a := range argv {
		kvp := strings.SplitN(strings.TrimPrefix(a, "--"), "=", 2)
		if !iniSafe(kvp[1]) {
			return "same"
		}
		ini.WriteString(strings.ReplaceAll(kvp[0], "-", "_") + " = " + kvp[1] + "\n")
	}
	got, _, _, legacy, err := config.LoadClientConfig(writeTmp("cx/frpc.ini", ini.String()), true)
	if err != nil || !legacy {
		return "differ load-error ini"
	}
	if r := sameOrDiffer(fc.client, got); r != "same" {
		return r + " ini"
	}
	return "same"
}

// ---------------------------------------------------------------- generators

var proxyExtraFields = []string{"LocalPort", "Transport.ProxyProtocolVersion", "HealthCheck.Type", "HealthCheck.Path",
	"HealthCheck.TimeoutSeconds", "HealthCheck.MaxFailed", "HealthCheck.IntervalSeconds"}

var visitorBaseFields = []string{"Name", "Transport.UseEncryption", "Transport.UseCompression", "SecretKey", "ServerUser",
	"ServerName", "BindAddr", "BindPort"}

var xtcpVisitorFields = []string{"Protocol", "KeepTunnelOpen", "MaxRetriesAnHour", "MinRetryInterval", "FallbackTo", "FallbackTimeoutMs"}

func visitorFields(t string) []string {
	if t == "xtcp" {
		return append(append([]string{}, visitorBaseFields...), xtcpVisitorFields...)
	}
	return visitorBaseFields
}

func cfFields(root string) []string {
	t := root[2:]
	if root[0] == 'v' {
		return visitorFields(t)
	}
	out := []string{}
	for _, f := range confFields(t) {
		if f != "Type" {
			out = append(out, f)
		}
	}
	return append(out, proxyExtraFields...)
}

func genFieldValue(rng *rand.Rand, root, path string, f reflect.Value) string {
	pickS := func(xs ...string) string {
		s := pick(rng, xs)
		if s == "" {
			return "z"
		}
		return "s" + hx(s)[1:]
	}
	switch path {
	case "Transport.ProxyProtocolVersion":
		return pickS("", "", "v1", "v2", "v3")
	case "HealthCheck.Type":
		return pickS("", "", "tcp", "http", "udp")
	case "HealthCheck.Path":
		return pickS("", "/health", "/a b")
	case "Protocol":
		return pickS("", "", "kcp", "quic", "tcp")
	case "ServerUser":
		return pickS("", "", "other", "Ü")
	case "ServerName", "FallbackTo":
		return pickS("", "srv", "p0", "远", "a.b")
	case "BindAddr":
		return pickS("", "", "0.0.0.0", "::1")
	}
	return genValue(rng, root[2:], path, f)
}

func genCF(rng *rand.Rand) string {
	root := "p:" + pick(rng, confTypes)
	if rng.Intn(10) < 3 {
		root = "v:" + pick(rng, []string{"stcp", "xtcp", "sudp"})
	}
	via := pick(rng, []string{"mem", "toml", "yaml", "json", "js", "flag", "toml", "yaml", "json", "flag", "ini"})
	if via == "ini" {
		return genCFIni(rng, root)
	}
	user := pick(rng, []string{"", "", "u", "Ünï", "a.b"})
	pc, vc := newRoot(root)
	var rv reflect.Value
	if pc != nil {
		rv = reflect.ValueOf(pc).Elem()
	} else {
		rv = reflect.ValueOf(vc).Elem()
	}
	out := []string{"cf", root, via, strconv.Itoa(rng.Intn(2)), hx(user)}
	for _, k := range cfFields(root) {
		if via == "flag" {
			if root[0] == 'p' && !proxyHasFlag(root[2:], k) {
				continue
			}
			if _, ok := visitorFlagOf[k]; root[0] == 'v' && !ok {
				continue
			}
		}
		v := genFieldValue(rng, root, k, fieldByPath(rv, k))
		if via == "flag" {
			for try := 0; ; try++ {
				if _, ok := flagText(v); ok || v == "z" {
					break
				}
				v = genFieldValue(rng, root, k, fieldByPath(rv, k))
				if try > 6 {
					v = "z"
				}
			}
		}
		if rng.Intn(6) == 0 {
			continue // the key is not mentioned at all
		}
		out = append(out, k+"="+v)
	}
	return strings.Join(out, " ")
}

func genCVal(rng *rand.Rand) string {
	if rng.Intn(4) == 0 {
		t := pick(rng, []string{"stcp", "xtcp", "sudp"})
		out := []string{"cval", "v:" + t}
		_, vc := newRoot("v:" + t)
		rv := reflect.ValueOf(vc).Elem()
		for _, k := range []string{"Name", "ServerName", "BindPort", "Protocol"} {
			if k == "Protocol" && t != "xtcp" {
				continue
			}
			v := genFieldValue(rng, "v:"+t, k, fieldByPath(rv, k))
			if k == "Name" && rng.Intn(5) == 0 {
				v = "z"
			}
			out = append(out, k+"="+v)
		}
		return strings.Join(out, " ")
	}
	t := pick(rng, confTypes)
	pc, _ := newRoot("p:" + t)
	rv := reflect.ValueOf(pc).Elem()
	out := []string{"cval", "p:" + t}
	fields := []string{"Name", "Annotations", "Transport.ProxyProtocolVersion", "Transport.BandwidthLimitMode", "LocalIP", "LocalPort",
		"HealthCheck.Type", "HealthCheck.Path"}
	for _, f := range confTyped[t] {
		if f == "CustomDomains" || f == "SubDomain" || f == "Multiplexer" {
			fields = append(fields, f)
		}
	}
	for _, k := range fields {
		v := genFieldValue(rng, "p:"+t, k, fieldByPath(rv, k))
		switch k {
		case "Name":
			if rng.Intn(8) == 0 {
				v = "z"
			}
		case "Transport.BandwidthLimitMode":
			// what Complete leaves behind, and sometimes what it would never leave
			if rng.Intn(4) != 0 && (v == "z" || v == "s"+hx("other")[1:]) {
				v = "s" + hx("client")[1:]
			}
		case "LocalPort":
			if rng.Intn(2) == 0 {
				v = "i" + strconv.Itoa(1+rng.Intn(65535))
			}
		case "Multiplexer":
			if rng.Intn(3) != 0 {
				v = "s" + hx("httpconnect")[1:]
			}
		case "Transport.ProxyProtocolVersion":
			if rng.Intn(2) == 0 {
				v = "z"
			}
		case "HealthCheck.Type":
			// absent, an allowed one, or anything else (other protocols, other letter case, blanks)
			switch r := rng.Intn(10); {
			case r < 4:
				v = "z"
			case r < 7:
				v = "s" + hx(pick(rng, []string{"tcp", "http", "http"}))[1:]
			case r < 8:
				v = "s" + hx(pick(rng, []string{"udp", "HTTP", "Tcp", "icmp", "https", " tcp", "http ", "ping", "名"}))[1:]
			}
		}
		out = append(out, k+"="+v)
	}
	// the plugin block: none, or any plugin type with / without the option its validator asks for
	if rng.Intn(2) == 0 {
		pt := pick(rng, clientPluginTypes)
		if rng.Intn(12) == 0 {
			pt = pick(rng, []string{"bogus", "HTTP2HTTPS", "unix"})
		}
		out = append(out, "Plugin.Type=s"+hx(pt)[1:])
		for _, o := range []string{"LocalAddr", "LocalPath", "UnixPath"} {
			switch r := rng.Intn(8); {
			case r < 5:
				out = append(out, "Plugin."+o+"=s"+hx(pick(rng, []string{"127.0.0.1:80", "/tmp/x", "a b", "名"}))[1:])
			case r < 6:
				out = append(out, "Plugin."+o+"=z")
			}
		}
	}
	return strings.Join(out, " ")
}

func genSVal(rng *rand.Rand) string {
	out := []string{"sval"}
	s := func(k string, xs ...string) {
		v := pick(rng, xs)
		if v == "" {
			out = append(out, k+"=z")
		} else {
			out = append(out, k+"=s"+hx(v)[1:])
		}
	}
	p := func(k string) {
		n := pick(rng, []int64{0, 0, 0, 0, 80, 443, 7000, 65535, int64(rng.Intn(65536))})
		if rng.Intn(12) == 0 {
			n = pick(rng, []int64{65536, -1, 70000, -65535})
		}
		if n == 0 {
			out = append(out, k+"=z")
		} else {
			out = append(out, k+"=i"+itoa64(n))
		}
	}
	s("Auth.Method", "token", "token", "token", "token", "oidc", "oidc", "", "jwt")
	if rng.Intn(3) == 0 {
		out = append(out, "Auth.AdditionalScopes="+pick(rng, []string{"L0:", "L1:" + hx("HeartBeats")[1:], "L2:" + hx("HeartBeats")[1:] + "," + hx("NewWorkConns")[1:], "L1:" + hx("Other")[1:]}))
	}
	s("Log.Level", "info", "info", "trace", "debug", "warn", "error", "info", "debug", "", "verbose")
	p("WebServer.Port")
	if rng.Intn(3) == 0 {
		out = append(out, "WebServer.TLS=b1")
		s("WebServer.TLS.CertFile", "", "c.pem")
		s("WebServer.TLS.KeyFile", "", "k.pem")
	}
	for _, k := range []string{"BindPort", "KCPBindPort", "QUICBindPort", "VhostHTTPPort", "VhostHTTPSPort", "TCPMuxHTTPConnectPort"} {
		p(k)
	}
	return strings.Join(out, " ")
}

func genBWText(rng *rand.Rand) string {
	switch rng.Intn(4) {
	case 0:
		return strconv.Itoa(rng.Intn(3000)) + pick(rng, []string{"KB", "MB"})
	case 1:
		return pick(rng, []string{"1MB", "1024KB", "0.5MB", "512KB", "1.5MB", "1536KB", "", " 1MB ", "0KB", "0MB"})
	}
	return pick(rng, confBWs)
}

// confGenExt: the ops added for the loaders, the flags and the client-side validators
func confGenExt(rng *rand.Rand, emit func(string)) {
	switch k := rng.Intn(100); {
	case k < 4:
		emit(genSValV(rng))
	case k < 8:
		emit(genCCVal(rng))
	case k < 34:
		emit(genFl(rng))
	case k < 63:
		emit(genCF(rng))
	case k < 70:
		emit(genTy(rng))
	case k < 78:
		emit(genCVal(rng))
	case k < 80:
		if rng.Intn(5) < 2 {
			emit(genPLoad(rng))
		} else {
			emit(fmt.Sprintf("own %d %s", rng.Intn(1<<30), pick(rng, []string{"toml", "yaml", "json"})))
		}
	case k < 84:
		emit(genSVal(rng))
	case k < 88:
		emit("nr " + hx(genRangeStr(rng, rng.Intn(3) == 0)))
	case k < 90:
		a := genBWText(rng)
		b := genBWText(rng)
		if rng.Intn(3) == 0 { // the same quantity written in the other unit
			n := rng.Intn(64)
			a, b = strconv.Itoa(n)+"MB", strconv.Itoa(n*1024)+"KB"
		}
		emit("bweq " + hx(a) + " " + hx(b))
	case k < 94:
		emit(fmt.Sprintf("load %d %s %d %d", rng.Intn(1<<30), pick(rng, []string{"toml", "yaml", "json"}), rng.Intn(2), rng.Intn(2)))
	case k < 96:
		emit(fmt.Sprintf("sload %d %s %d %d", rng.Intn(1<<30), pick(rng, []string{"toml", "yaml", "json"}), rng.Intn(2), rng.Intn(2)))
	case k < 98:
		emit(fmt.Sprintf("sx %d", rng.Intn(1<<30)))
	default:
		emit(fmt.Sprintf("cx %d", rng.Intn(1<<30)))
	}
}

// ---------------------------------------------------------------- legacy INI rendering of one definition

var iniKeyOf = map[string]string{"LocalIP": "local_ip", "LocalPort": "local_port", "Transport.UseEncryption": "use_encryption",
	"Transport.UseCompression": "use_compression", "Transport.BandwidthLimit": "bandwidth_limit",
	"Transport.BandwidthLimitMode": "bandwidth_limit_mode", "Transport.ProxyProtocolVersion": "proxy_protocol_version",
	"LoadBalancer.Group": "group", "LoadBalancer.GroupKey": "group_key", "HealthCheck.Type": "health_check_type",
	"HealthCheck.TimeoutSeconds": "health_check_timeout_s", "HealthCheck.MaxFailed": "health_check_max_failed",
	"HealthCheck.IntervalSeconds": "health_check_interval_s", "HealthCheck.Path": "health_check_url",
	"RemotePort": "remote_port", "CustomDomains": "custom_domains", "SubDomain": "subdomain", "Locations": "locations",
	"HTTPUser": "http_user", "HTTPPassword": "http_pwd", "HostHeaderRewrite": "host_header_rewrite",
	"RouteByHTTPUser": "route_by_http_user", "Multiplexer": "multiplexer", "Secretkey": "sk", "AllowUsers": "allow_users",
	// visitors
	"SecretKey": "sk", "ServerName": "server_name", "ServerUser": "server_user", "BindAddr": "bind_addr", "BindPort": "bind_port",
	"Protocol": "protocol", "KeepTunnelOpen": "keep_tunnel_open", "MaxRetriesAnHour": "max_retries_an_hour",
	"MinRetryInterval": "min_retry_interval", "FallbackTo": "fallback_to", "FallbackTimeoutMs": "fallback_timeout_ms"}

var iniMapPrefix = map[string]string{"Metadatas": "meta_", "RequestHeaders.Set": "header_"}

// iniSafe: text that the INI syntax carries unchanged (no quoting, comment or continuation characters,
// no surrounding blanks, not empty)
func iniSafe(s string) bool {
	if s == "" || strings.TrimSpace(s) != s {
		return false
	}
	return !strings.ContainsAny(s, "#;\"'`\\\n\r=[]{}$%,")
}

func iniDoc(root, user string, keys, vals []string) (string, bool) {
	var b strings.Builder
	b.WriteString("[common]\nserver_addr = 127.0.0.1\n")
	if user != "" {
		if !iniSafe(user) {
			return "", false
		}
		b.WriteString("user = " + user + "\n")
	}
	name := ""
	lines := []string{"type = " + root[2:]}
	if root[0] == 'v' {
		lines = append(lines, "role = visitor")
	}
	for i, k := range keys {
		v := docValue(vals[i])
		if v == nil {
			continue
		}
		if k == "Name" {
			name = v.(string)
			continue
		}
		if pfx, ok := iniMapPrefix[k]; ok {
			m := v.(map[string]string)
			mk := []string{}
			for x := range m {
				mk = append(mk, x)
			}
			sort.Strings(mk)
			for _, x := range mk {
				if !iniSafe(x) || !iniSafe(m[x]) || strings.ContainsAny(x, " .") {
					return "", false
				}
				lines = append(lines, pfx+x+" = "+m[x])
			}
			if len(m) == 0 {
				return "", false
			}
			continue
		}
		ik, ok := iniKeyOf[k]
		if !ok {
			return "", false
		}
		switch x := v.(type) {
		case string:
			if !iniSafe(x) {
				return "", false
			}
			lines = append(lines, ik+" = "+x)
		case int:
			lines = append(lines, ik+" = "+strconv.Itoa(x))
		case bool:
			lines = append(lines, ik+" = true")
		case []string:
			if len(x) == 0 {
				return "", false
			}
			for _, e := range x {
				if !iniSafe(e) {
					return "", false
				}
			}
			lines = append(lines, ik+" = "+strings.Join(x, ","))
		default:
			return "", false
		}
	}
	if !iniSafe(name) || strings.ContainsAny(name, " ") {
		return "", false
	}
	b.WriteString("\n[" + name + "]\n" + strings.Join(lines, "\n") + "\n")
	return b.String(), true
}

// genCFIni: a definition the legacy INI syntax can carry (see iniDoc / iniSafe)
func genCFIni(rng *rand.Rand, root string) string {
	user := pick(rng, []string{"", "", "u", "Ünï", "a.b"})
	pc, vc := newRoot(root)
	var rv reflect.Value
	if pc != nil {
		rv = reflect.ValueOf(pc).Elem()
	} else {
		rv = reflect.ValueOf(vc).Elem()
	}
	out := []string{"cf", root, "ini", strconv.Itoa(rng.Intn(2)), hx(user)}
	for _, k := range cfFields(root) {
		_, plain := iniKeyOf[k]
		_, mapped := iniMapPrefix[k]
		if !plain && !mapped && k != "Name" {
			continue
		}
		v := "z"
		for try := 0; try < 8; try++ {
			c := genFieldValue(rng, root, k, fieldByPath(rv, k))
			if k == "Name" {
				c = "s" + hx(pick(rng, []string{"p1", "web", "名前", "a.b", "x-y_z"}))[1:]
			}
			if _, ok := iniDoc(root, "", []string{"Name", k}, []string{"s" + hx("n")[1:], c}); ok || c == "z" {
				v = c
				break
			}
			if k == "Name" {
				v = c
				break
			}
		}
		// the legacy parser replaces non-positive numbers of an xtcp visitor by the defaults (by design)
		if root == "v:xtcp" && strings.HasPrefix(v, "i-") {
			v = "z"
		}
		if k != "Name" && rng.Intn(6) == 0 {
			continue
		}
		out = append(out, k+"="+v)
	}
	return strings.Join(out, " ")
}
